#!/usr/bin/env python3
"""usage: keep_mutant.py <worktree> <A|B> <seeded-id> <property> <detected_by json string>
Copies a confirmed seeded change into /verif/seeded/<seeded-id>/ with meta.json."""
import json, os, shutil, sys
wt, ab, sid, prop, detected = sys.argv[1:6]
dst = os.path.join(os.path.dirname(os.path.dirname(os.path.abspath(__file__))), "seeded", sid)
os.makedirs(dst, exist_ok=True)
shutil.copy(os.path.join(wt, "_seeded", ab + ".patch.diff"), os.path.join(dst, "patch.diff"))
shutil.copy(os.path.join(wt, "_seeded", ab + ".demo.diff"), os.path.join(dst, "demo.diff"))
shutil.copy(os.path.join(wt, "_seeded", ab + ".md"), os.path.join(dst, "description.md"))
md = open(os.path.join(dst, "description.md")).read()
meta = {
    "id": sid,
    "property": prop,
    "source": "independent sub-agent given only the property text and a scratch worktree",
    "needs_to_manifest": next((l.strip() for l in md.splitlines() if "need" in l.lower()), ""),
    "confirmed": {
        "how": "tools/confirm_mutant.sh in the scratch worktree: (1) cargo test --offline with patch.diff: existing suite passes (beacon::encode_decode_cmd is load-sensitive on the unmodified tree and ignored), (2) with patch.diff + demo.diff: the demonstration test fails, (3) with demo.diff only: all tests pass",
        "result": "confirmed",
    },
    "checks_run": json.loads(detected),
}
json.dump(meta, open(os.path.join(dst, "meta.json"), "w"), indent=1)
print("kept", dst)
