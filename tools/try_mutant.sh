#!/bin/bash
# usage: tools/try_mutant.sh <patch.diff> <property id> [extra ./check args]
# applies the patch to /repo, runs the check, reverts. Never leaves /repo modified.
set -u
patch="$1"; pid="$2"; shift 2
cd "$(dirname "$0")/.."
if ! git -C /repo diff --quiet; then echo "refusing: /repo has uncommitted changes"; exit 2; fi
trap 'git -C /repo checkout -- .' EXIT INT TERM
git -C /repo apply "$patch" || { echo "patch does not apply"; exit 2; }
# evidence of runs against a changed tree must not replace the evidence of the unchanged tree
VERIF_EVIDENCE_DIR="$(pwd)/replays/tmp/mutant-evidence" ./check "$pid" "$@"
rc=$?
git -C /repo checkout -- .
echo "exit=$rc"
exit $rc
