#!/bin/bash
# usage: tools/confirm_mutant.sh <worktree> <A|B>   -> prints CONFIRMED/REJECTED and details
# Confirms in the scratch worktree: suite passes with the change; demo fails with it and passes without it.
wt="$1"; ab="$2"
cd "$wt" || exit 2
export CARGO_NET_OFFLINE=true
git checkout -q -- . ; git clean -fdq src
run() { cargo test --offline -- --test-threads=4 2>&1 | grep -E "^test .* (FAILED|failed)|^test result" ; }
filt() { grep -v "beacon::encode_decode_cmd" ; }
git apply _seeded/$ab.patch.diff || { echo "REJECTED: patch does not apply"; exit 1; }
r1=$(run); f1=$(echo "$r1" | grep "^test .* \.\.\. FAILED" | filt)
echo "[suite with change] $(echo "$r1" | grep 'test result' | head -1) failures(non-flaky): ${f1:-none}"
git apply _seeded/$ab.demo.diff || { echo "REJECTED: demo does not apply"; git checkout -q -- .; git clean -fdq src; exit 1; }
r2=$(run); f2=$(echo "$r2" | grep "^test .* \.\.\. FAILED" | filt)
echo "[demo with change] failures: ${f2:-none}"
git apply -R _seeded/$ab.patch.diff || { echo "REJECTED: cannot revert patch"; git checkout -q -- .; git clean -fdq src; exit 1; }
r3=$(run); f3=$(echo "$r3" | grep "^test .* \.\.\. FAILED" | filt)
echo "[demo without change] $(echo "$r3" | grep 'test result' | head -1) failures(non-flaky): ${f3:-none}"
git checkout -q -- . ; git clean -fdq src
if [ -z "$f1" ] && [ -n "$f2" ] && [ -z "$f3" ]; then echo "CONFIRMED $wt $ab"; else echo "REJECTED $wt $ab"; fi
