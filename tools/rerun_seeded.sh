#!/bin/bash
# usage: tools/rerun_seeded.sh <seeded name>...   re-runs the given seeded changes and replaces their lines in SENSITIVITY.txt
cd "$(dirname "$0")/.."
out=SENSITIVITY.txt
for name in "$@"; do
  d=seeded/$name/
  prop=$(python3 -c "import json;print(json.load(open('$d/meta.json'))['property'])")
  res=$(timeout 1800 tools/try_mutant.sh "$(pwd)/${d}patch.diff" $prop 2>&1)
  rc=$(echo "$res" | grep -o "exit=[0-9]*" | tail -1)
  sigs=$(echo "$res" | grep -o "replay=[^ ]*" | sed 's#.*/##; s/-[0-9a-f]\{16\}\.json//' | sort -u | tr '\n' ' ')
  if [ "$rc" = "exit=1" ]; then line="$name -> $prop: DETECTED ($sigs)"; else line="$name -> $prop: NOT DETECTED ($rc)"; fi
  echo "$line"
  python3 - "$name" "$line" <<'PY'
import sys
name, line = sys.argv[1], sys.argv[2]
p='SENSITIVITY.txt'
ls=open(p).read().splitlines()
hit=False
for i,l in enumerate(ls):
    if l.startswith(name+' -> '):
        ls[i]=line; hit=True
if not hit: ls.append(line)
open(p,'w').write('\n'.join(ls)+'\n')
PY
done
git -C /repo status --short | head -3
