#!/usr/bin/env python3
"""Writes /verif/MANIFEST.json from the table below (kept next to the code so the two cannot drift)."""
import json
import os
import subprocess

HERE = os.path.dirname(os.path.dirname(os.path.abspath(__file__)))

TECH = "deterministic simulation with fault injection: seeded search over schedules/faults on real node code, in-run invariants + history oracle, choice-trace replay and shrinking"

# id -> (category, level text, level note, design ref, technique detail)
CLAIMED = {
    "C08": (
        "fault_enumeration",
        "Seeded deterministic simulation of 2-3 real GenericCloud nodes plus an outside adversary. The grid victim state (7) x first-datagram length 0..=80 x structured first byte (16) is enumerated once per 9072 runs; sequences of up to 50 forged datagrams (structured, truncated / length-corrupted / wrong-party copies of recorded handshake, data, node-info and rotation datagrams, random up to 65535 bytes) are drawn from the seed. Oracles: no unwind out of any node step, no state change (peers, pending handshakes with their stages and retry counters, claim table, own addresses, reconnect entries) and no device write for datagrams that cannot verify (decided by an independent reference verifier over the bytes the receiver really parses, including the stale tail of its receive buffer), nodes alive and a genuine probe still crossing afterwards. A clean batch is evidence over the sampled sequences, not a proof.",
        "Trusted: the simulator seams (SimSocket/SimDevice/SimClock, verif_step as one iteration of run()), ring, the reference handshake verifier. Process aborts that are not unwinds (stack overflow, OOM) would kill the batch and surface as a harness error, not as a violation. Build has overflow checks and debug assertions on.",
        "DESIGN.md section 8, C08",
        "fault enumeration over (state x length x first byte) + seeded adversary sequences",
    ),
    "C15": (
        "exploration",
        "Seeded deterministic simulation of real nodes in four shapes: heterogeneous meshes (2-4 nodes, peer timeouts from {0,1,59,60,119,120,121,300,65535} x keepalive {none,1,30,600,70000}) observed for 3x the largest timeout after warm-up; silence injection at an instant drawn from a 200 s window (total - optionally with the captured first handshake message of the silent node replayed every 20-100 s - or selective: the node's announcements, keepalives, rotation and handshake messages are lost while its payload keeps arriving; in tun meshes and in learning tap meshes with an address learned behind the node); a two-node sweep over advertised timeout values (boundary values in quick, every value 0..65535 once in thorough); 48 h back-off runs with 1-2 unreachable configured peers and an optional phase of injected send errors. Oracles: at every announcement scheduling, interval == 1 or interval < min advertised timeout of the current peers (the timeout each peer entry's incarnation was configured with, i.e. advertises - not the value the node stored); no timeout removal in a stable delivering mesh (all timeouts >= 3 s), also after one node came back (crash or clean stop, 0-3 s down, 40 % of the mesh runs) with another timeout and the mesh settled again (all pairs connected, no handshake pending or lingering, nothing added or removed for 5 s, every node scheduled an announcement since it last added a peer); a silenced peer is removed, with its routes, at the first housekeeping after its expiry and re-dialled, never earlier; dial attempts to unreachable configured peers never stop and are at most 3600 s (+2 s) apart once faults have stopped; node start and every step must not unwind (overflow checks on).",
        "Trusted: simulator seams and the 1 s tick model (housekeeping condition evaluated after every event, as in run()). The quick tier caps the observation span of heterogeneous meshes at 3 x 1200 s; meshes containing a timeout < 3 s are observed for 30 s and only the scheduling clause is checked there.",
        "DESIGN.md section 8, C15",
        "seeded search over configurations x silence instants x send-error phases; bounded liveness after faults stop",
    ),
    "C05": (
        "exploration",
        "Node level: 2-3 real nodes, every pair configured in one or both directions (dual open), staggered starts; a fault phase of 0-900 s with a per-run subset of {loss 10-100 %, duplication, delay up to 90 s, jitter up to 5 s, one- and two-way partitions with heals, node stalls, send errors}, then a reliable phase. Oracle (bounded liveness after faults stop): all pairs mutually connected and a marked probe frame delivered byte-identical in both directions within peer timeout + retry horizon (120 retries x 2 s housekeeping period) + 10 s + 2 x the reconnect back-off reached when faults stop, counted from the landing time of the last delayed datagram; no unwind in any step.",
        "Trusted: simulator seams; the bound uses the housekeeping period the event loop really has (every other second), see DESIGN.md. Two thirds of the runs are pair-level agreement schedules (sim/src/l1.rs, c05): a seed-indexed sweep of all schedules of length 4 (thorough: 6) over {A initiates, B initiates, deliver oldest/newest, duplicate, drop, tick A, tick B} plus random schedules to depth 200 on two real PeerCrypto ends; oracle: an attempt succeeds at most once, payload exactly as offered, no attempt completes against two partners (encrypted modes), and connections completed against each other have complementary initiator flags, equal ciphers and open each other's datagrams.",
        "DESIGN.md section 8, C05",
        "seeded adversarial network then reliable phase; bounded liveness",
    ),
    "C14": (
        "exploration",
        "Meshes: random connected labelled bootstrap graphs on 2-6 nodes (thorough: up to 8) with per-edge dial orientation, address-filtering NAT per node, nodes behind translating NATs with port forwards (seen and reached under a public address only), 0-9 advertised unreachable addresses per node, staggered starts (in 15 % of the runs one node comes up 250-650 s late, after the handshakes waiting for it have given up; in 6 % one node crashes 2-60 ms after its start and comes back 0.3-4 s later), 15 % plain meshes, reliable network. Oracle: every pair mutually connected within (diameter+2) announcement intervals of 90 s + 60 s (10 intervals with NAT) and still 400 s later. Self-dial: node 0 behind a translating NAT; its datagrams to its public address come back with source in {own socket, public address, third address}; it dials the address because it is configured, advertised, or only listed by peers; alone and inside a 2-3 node mesh. Invariant after every step: no node lists itself as a peer (by node id or by an address that reaches it); an address listed under the node's identity is adopted at once, must be adopted when peers reach the node through it, and is not dialled while adopted.",
        "Trusted: simulator seams, the NAT models (address filtering with 300 s mappings as in the in-tree MockSocket; translating NAT with port forward; internal addresses unroutable from outside). Graph space is sampled, not enumerated.",
        "DESIGN.md section 8, C14",
        "seeded search over bootstrap graphs x NAT kinds x hair-pin source addresses; bounded liveness + invariant",
    ),
    "C09": (
        "fault_enumeration",
        "Node level: 2-3 real nodes on a clean network; establishment plus 3-10 s of operation are recorded; run i takes cell i mod 72 of the grid replay offset {0,1,2,5,30,59,61,90,119,121,300,600} s x source address {original, another peer, unknown} x {verbatim, one field edited (stage, node-id hash, ECDH key, cipher list, payload, part length, signature length/bytes; key id, counter, ciphertext/tag)}: every recorded datagram is re-injected at its original destination at (first transmission + offset). One marked probe frame per second in both directions on every connection until 400 s after the last re-injection. Oracle: at every tick every pair still connected and holding the other's claims; every probe delivered byte-identical exactly once (a second copy only for verbatim replays from the original source at offsets <= 5 s, the C03 window); no unwind.",
        "Trusted: simulator seams. No network fault other than the adversary is enabled, so every loss is attributable. The recorded set is establishment + the first seconds of operation (handshake, node info, data, first rotation message), not hours of traffic.",
        "DESIGN.md section 8, C09",
        "fault enumeration over (offset x source x edit) with seeded meshes; per-second probe delivery oracle",
    ),
    "C10": (
        "exploration",
        "Forwarding family scenario (sim/src/fwd.rs): 2-5 real nodes, modes normal/router/switch/hub on tun and tap, 20-120 operations per run (thorough: up to 300): marked frames and packets (24..9000 bytes; destinations claimed / learned / unknown / broadcast / own; truncated frames), time steps of 0/1/switch timeout -1,+0,+1 (switch timeout 2..300 s), restarts on the same address with another claim set, graceful stops, crashes, one-way partitions, optional loss. C10 oracle (conservation per step): handling one interface read emits exactly one datagram per peer selected by the node's own lookup (probe) and nothing else; handling a received payload emits no datagram; every interface write is byte-identical to a frame read at a peer, comes from a current peer and is caused by exactly one datagram; at the end every marked frame was written at most once per peer entry that selected it (at most once per node unless the origin held two connections to it), never at its origin, only at selected peers, and at every selected peer with which the origin had a settled connection (both ends added each other after their last start and at least 2 s before the read; the receiver neither restarted nor re-handshook within the next second) on a loss-free network. A quarter of the meshes with three or more nodes is multi-homed (every node has an address in a second network, configured peers are dialled in either); there a node must never dial, on an announcement, a node it is already peered with under another address (restricted to nodes that never restarted).",
        "Trusted: simulator seams and the harness' cause tagging of wire datagrams (which step emitted them). Steps in which housekeeping ran are excluded from the exact datagram count (announcements are emitted in the same step). Relay detection needs no decryption.",
        "DESIGN.md section 8, C10 and 8.1",
        "seeded operation sequences; conservation invariants per step + exactly-once accounting over the history",
    ),
    "C11": (
        "exploration",
        "Forwarding family scenario (sim/src/fwd.rs): 2-5 real nodes, modes normal/router/switch/hub on tun and tap, 20-120 operations per run (thorough: up to 300): marked frames and packets (24..9000 bytes; destinations claimed / learned / unknown / broadcast / own; truncated frames), time steps of 0/1/switch timeout -1,+0,+1 (switch timeout 2..300 s), restarts on the same address with another claim set, graceful stops, crashes, one-way partitions, optional loss. C11 shapes: router/normal on tun (router on tap with MAC ranges), 1-3 claims per node from a nested/overlapping universe (IPv4 /0../32, IPv6). Oracle per interface read: the next hop (lookup probe) is the peer of a longest-prefix match over the claims in the table dump (independent bit-by-bit matcher) or a cached decision that the history-based reference still holds (made <= switch timeout ago, not beyond its claim's expiry, peer not removed, claim not withdrawn since, not past a sweep); no live claim: router mode emits nothing and the dropped-payload counter rises by one; cache entries never outlive the switch timeout, a sweep after their expiry, or a claim of their peer containing the address. Table level (3 of 4 runs after the sweep; sim/src/tbl.rs): one real ClaimTable driven directly with announce / withdraw / disconnect / lookup / learn / time steps of 0, 1, cache timeout, cache timeout+1, claim timeout+1 - all operation sequences of length 4 (thorough: 6) over a 14 operation alphabet, then random histories up to 300 operations - compared after every operation with a reference model written from the property statement (claims with expiries, cached decisions with expiries); a divergence between table and announcement history is followed to the first moment a lookup shows it (clock to the earlier expiry + 1, sweep, look up every address). Node level judges every decision twice: against the claims in the table dump and against the announcements of the current peers (live for one peer timeout after the last announcement; expired but unswept claims admit both answers).",
        "Trusted: simulator seams, the reference matcher (sim/src/refmodel.rs). The exhaustive 8/16-bit prefix universes of the quantifier are a pure-function sweep and are not part of this simulation check; prefix arithmetic is exercised through the generated packets only (boundary addresses of every claim are in the destination grid).",
        "DESIGN.md section 8, C11",
        "seeded operation sequences with time steps around expiry; history-based reference for cached decisions",
    ),
    "C12": (
        "exploration",
        "Forwarding family scenario (sim/src/fwd.rs): 2-5 real nodes, modes normal/router/switch/hub on tun and tap, 20-120 operations per run (thorough: up to 300): marked frames and packets (24..9000 bytes; destinations claimed / learned / unknown / broadcast / own; truncated frames), time steps of 0/1/switch timeout -1,+0,+1 (switch timeout 2..300 s), restarts on the same address with another claim set, graceful stops, crashes, one-way partitions, optional loss. C12 shapes add membership changes in every run and tap/switch meshes (learned addresses). Oracle after every step of every node: every next hop in claims and cache is a current peer; the set of claims attributed to a connected peer equals the last announcement processed from it (history of ClaimsSet probes; missing claims accepted only after the peer timeout); nothing survives a sweep that ran after its timeout; no non-peer is ever selected as next hop. Table level as for C11 (same driver, announcement-centred: any subset, order and duplicates of 6 ranges by 3 peers; exhaustive to length 4 / 6): the table's claims with their expiries equal the announcement history after every operation.",
        "Trusted: simulator seams; ClaimsSet/PeerRemoved probes as the record of what the node processed. Claim comparison is by set (duplicates in an announcement are not distinguished).",
        "DESIGN.md section 8, C12",
        "seeded membership histories; invariant after every step against the announcement history",
    ),
    "C13": (
        "exploration",
        "Forwarding family scenario (sim/src/fwd.rs): 2-5 real nodes, modes normal/router/switch/hub on tun and tap, 20-120 operations per run (thorough: up to 300): marked frames and packets (24..9000 bytes; destinations claimed / learned / unknown / broadcast / own; truncated frames), time steps of 0/1/switch timeout -1,+0,+1 (switch timeout 2..300 s), restarts on the same address with another claim set, graceful stops, crashes, one-way partitions, optional loss. C13 shapes: 3-5 tap nodes in switch/normal, hub and router mode; MAC universe x VLAN tags {none, 0, 1, 0x67, 0xfff} x all 16 PCP/DEI nibbles x nested tags. Reference learning table (VLAN-normalised source -> (peer, learned at); VLAN 0 = untagged; independent dissector) updated on every interface write; oracle per interface read: the destination goes to exactly the learned peer while the entry is live, to all peers once expired and swept, either inside the sweep granularity; re-learning from another peer and disconnects supersede; hub and router never learn.",
        "Trusted: simulator seams, the reference dissector and learning table. The sweep over all 65536 tag-control values is a pure-function sweep and is sampled here (5 VLAN ids x 16 PCP/DEI nibbles).",
        "DESIGN.md section 8, C13",
        "seeded frame sequences with time steps around the switch timeout; reference learning table",
    ),
    "C01": (
        "exploration",
        "Node level: 2-4 real nodes over 1-4 key pairs (explicit or password-derived), each node's trusted set any subset of the keys, random dial orientation per pair, staggered starts, optional restart, mild loss / duplication / in-flight bit flips and truncation, then a reliable phase; an adversary that sees every genuine handshake datagram reacts with field edits (stage, node-id hash, ECDH key, cipher list, payload, part and signature lengths, signature bytes), single bit flips, truncations, length corruptions and random bodies behind the marker, signatures that verify under degenerate public keys (R of small order, S = 0) behind unknown key hashes, sent to the original destination (racing the genuine datagram), back at the sender, or from an unknown address - which reaches receivers that are fresh, awaiting pong, awaiting peng, established with and without lingering handshake. Oracles: (a) after every step every peer entry is backed by mutual trust; (b) every handshake datagram that, as the receiver parses it (stale buffer tail included), carries no valid signature of a key the receiver trusts - decided by an independent reference verifier (sim/src/refmodel.rs) - changes no state and causes no reply; (c) every dialled, mutually trusting pair ends connected; (d) payload reaches an interface only from a sender that completed a handshake with a mutually trusted key (unsealed payload is presented from addresses of handshakes in progress).",
        "Trusted: simulator seams, the reference verifier (own TLV walk + ring Ed25519 verify), snapshots as the definition of 'state' (peers, pending handshakes and stages, lingering stage, claim table, own addresses, reconnect entries - not the replay window or traffic counters). Steps in which housekeeping ran are excluded from the no-reply clause. The exhaustive every-bit / every-truncation sweep per stage of the quantifier is sampled, not enumerated.",
        "DESIGN.md section 8, C01",
        "seeded trust relations and reactive adversary; invariant + before/after snapshot per unverifiable datagram",
    ),
    "C02": (
        "exploration",
        "Node level: 2-3 real tun nodes with cipher lists from {default, aes128, aes256, chacha20, plain, plain+aes256, chacha20+aes128} (plain on none / one / both ends), a never-answering configured peer at node 0; 10-60 marked frames per run, the first of length (i mod 301) so that every length 0..=300 occurs once per 301 runs, others up to 9000 bytes; after each frame one sealed datagram on the wire (data or node info) is tampered with: one bit flipped in key id / counter / ciphertext / tag, truncation at any length, reflection to its sender, presentation on another connection of a 3-node mesh with matching source address, extension; unsealed payload from the address of a pending handshake; datagrams sealed by the outsider under guessable keys (all-zero, all-ones) for every cipher, key slot and nonce half; in 30 % of the runs a frame is sealed while the path is cut, its sender crashes and comes back, and the held-back datagram of the previous connection arrives after the new handshake; in 15 % of the runs the last node is told to dial an address that leads back to itself (hair-pin with crosswise source addresses) and reads packets for its own address; send errors (EAGAIN, ENETUNREACH, EPERM, EINTR, short write) in a quarter of the runs; Ethernet (tap) meshes in 30 % of the runs (an Ethernet dissector accepts any 14 bytes, so a mangled payload would be written rather than dropped). Oracles: every interface write is byte-identical to the frame read at the sending peer and stems from an unmodified copy of its datagram; a tampered datagram causes no write, no state change, no reply; no node ever writes a frame for a datagram it sealed itself; two ticks later untouched frames are delivered exactly once on every connection; the complete wire capture of pairs that did not both enable plain contains no 16-byte window of payload or of any node id.",
        "Trusted: simulator seams and the harness' attribution of wire datagrams (origin genuine / tampered, cause interface read). Bit positions and truncation lengths are sampled per region, not enumerated per datagram; encoded claims are not searched for separately (they travel in the same sealed node-info message as the node id).",
        "DESIGN.md section 8, C02",
        "seeded traffic with one tampering per frame; attribution of every interface write + wire scan",
    ),
    "C03": (
        "exploration",
        "Pair level (L1): an established pair of real PeerCrypto objects for each cipher. A seed-indexed sweep enumerates all schedules of length 5 (thorough: 7) over {seal next, deliver datagram 1..5 (again), tick receiver}; random histories of 20-400 steps add sender ticks, delivery/loss of rotation messages and fast-forwards across key rotations. Oracle computed from the recorded history only (no access to the window variables): a genuine datagram with counter c under key generation g is rejected iff something with counter >= c was accepted under g before the receiver's previous tick, accepted otherwise while the receiver still holds g under that key id, and opens to the sealed bytes. Both directions of error are reported (replay hole, loss of in-window traffic). Node level (every tenth run after the sweep): two real nodes, every captured data datagram is replayed 0-5 housekeeping rounds after its first delivery, in 30 % of the cases after the captured first handshake message was replayed to the receiver (which opens a handshake next to the established connection); a replay arriving two or more housekeeping rounds of the receiver after the first delivery must not be written to the interface again; in 30 % of these runs a node has a housekeeping task that fails every round (missing beacon file); in 20 % the connection is half-open at first (the initiator's third handshake message is lost for 10-90 s while it already sends payload).",
        "Trusted: the L1 driver (sim/src/pair.rs replicates the node's per-address routing of handshake objects), Seal/KeyRotated probes for attributing datagrams to key generations. A 'tick' is one call of every_second; the node-level replay of captured data datagrams k rounds later is part of C09.",
        "DESIGN.md section 8, C03",
        "seed-indexed exhaustive sweep of short schedules + random histories; history oracle",
    ),
    "C04": (
        "exploration",
        "Pair level. Two thirds of the runs: whole connection lifetimes of a real PeerCrypto pair - handshake by one side or both at once with reordered/duplicated datagrams, 300-1500 ticks per end (thorough: up to 4000; 120 ticks per rotation cycle), rotation messages lost/duplicated/reordered/delayed, a probe sealed in both directions after every step, nonce starts shaped to sit below carry boundaries of 1-6 bytes, the counter placed 1-40 seals below the 56 bit limit with ticks of either end between the seals that cross it. Oracle over the seal log (every encrypt call): no (key, nonce) pair twice, strictly increasing per (end, key), different top bytes at the two ends of a key, every key starts exactly at the generator's bytes and its first seal is start+1, past the 56 bit limit the peer opens nothing and below it everything. One third of the runs walk the two-party handshake schedules of C05 (exhaustive sweep of length 4 / 6, then random schedules with forced re-dials) under the same seal-log oracles plus: the two ends of one key install it with opposite nonce halves. After the sweeps every twentieth run is a node-level run: 2-3 real nodes exchange packets while their sockets refuse datagrams now and then (EAGAIN, ENETUNREACH, EPERM, EINTR, short write); every seal of every node must be unique and increasing per key. One lifetime in fifty is longer than 128 rotation cycles.",
        "Trusted: the Seal/NonceStart probes (src/crypto/core.rs, guarded) and the key fingerprint (AEAD tag of the empty message under the reserved all-ones nonce). Unpredictability is checked as 'equals what the generator handed out', not statistically.",
        "DESIGN.md section 8, C04",
        "seeded lifetimes with shaped nonce starts and counter placement; global seal-log uniqueness",
    ),
    "C06": (
        "fault_enumeration",
        "Pair level: all 225 pairs of non-empty subsets of {plain, aes128, aes256, chacha20} are enumerated (run i takes pair i mod 225); speeds from the grid {0, 1, 50, 50, 400, 3.4e38, 0.4, 0.6, 99.6, 100.2, 100.4, 100.5} per cipher and side, 2-4 variants per run with independent list orders and initiator in {A, B, both at once}, in 40 % of the runs one in-flight edit of the cipher list (algorithm id, speed byte, list length). Oracle: independent reference selection; both ends equal and among the maximisers of min(speed_A, speed_B); clean failure iff no common cipher; never plain without mutual consent; the same cipher under every order/initiator; an edited list is rejected without state change; established ends open each other's datagrams.",
        "Trusted: L1 driver, prescribed speeds through the guarded hook in Crypto::new (the real measurement is replaced). The empty algorithm list means 'defaults' to the configuration parser and is therefore the 3-cipher set; NaN speeds are excluded as in the property.",
        "DESIGN.md section 8, C06",
        "enumeration of subset pairs x seeded speeds, orders, initiators and in-flight edits; reference model + metamorphic relation",
    ),
    "C07": (
        "exploration",
        "Pair level. A seed-indexed sweep enumerates all schedules of length 6 (thorough: 8) over {rotation cycle at A, cycle at B, deliver the oldest / newest in-flight rotation message, deliver a duplicate, drop} with a probe in both directions after every operation. Random part: an established real PeerCrypto pair (real rotation state, real key slots); 300-1500 ticks per end (thorough: up to 4000) at independent rates, rotation messages lost (10-60 %), duplicated, reordered, delayed by up to 600 ticks during a fault phase covering 0-75 % of the run. After every step each end seals a probe and the other must open it to the same bytes; in the fault-free suffix (after 4 intervals of recovery) the sealing key of each direction changes at least once per window of 2 rotation intervals + 1 tick. After the sweep every fiftieth run is a node-level run: the connection of two real nodes is replaced by a second handshake (the dialling end crashes and comes back on the same address while the other end still holds the old connection); once both ends have added each other again, probes in both directions every 1-10 s for up to 12 minutes must all be delivered.",
        "Trusted: L1 driver. The exhaustive enumeration reaches depth 6 / 8 instead of 12; beyond that seeded schedules over 2-30 rotation cycles, and one lifetime in fifty over more than 128 cycles (message ids beyond 255).",
        "DESIGN.md section 8, C07",
        "seeded rotation schedules with message faults; probe-after-every-step invariant + bounded freshness",
    ),
    "C16": (
        "exploration",
        "Node level, the part of the property that meets the network: 1-6 real nodes (thorough: up to 24, beyond the 20 peer limit of an announcement) with 0-9 advertised addresses per family, claims of every address length the configuration can express with any prefix 0-255, timeouts up to 65535; plain meshes in 30 % of the runs; a corrupting network (bit flips, truncation, duplicates); an outside sender presenting truncations, single-byte substitutions at tag/length positions, random parts with boundary lengths behind a genuine key hash and random strings up to 2 KiB to the handshake decoder; and an alien-version peer (trusted key, real handshake/envelope code, OWN node-info encoder and decoder written from the format) that announces claims of every address length 0-16 and prefix 0-255, 0-9 addresses per family and unknown parts (tags 6-255, 0-700 bytes) at every position, 0-4 peer entries with 0-9 addresses per family (entries without addresses and without id included), cipher lists of 5-12 entries in its handshake, rotation messages with keys of any length 0-255. Oracles: no unwind; real node -> real node: decoded claims and timeout equal the sender's, held addresses are the seen address followed by the sender's stable own addresses in normal form (7 per family, IPv6 first); real node -> reference decoder: same, at most 20 peer entries, each in normal form; reference encoder -> real node: decoded claims, timeout and addresses equal what the alien encoded, the alien stays connected at every step and packets for its claim reach it byte-identical; every message the reference encoder writes is also given directly to the real decoder and must come back exactly; every real node's own announcement goes through real encoder -> reference decoder and real decoder (sampled at 10 % of its ticks); a well-formed alien that completed its handshake on an unaltering network must be listed by the node within 30 s. A run that does not terminate within 150 s of wall-clock time is reported as a hang with its seed.",
        "Not covered by simulation and not claimed: the pure-function part of the property (round trip over all generated message shapes, every truncation and substitution of every encoding, the rotation-message decoder on arbitrary bytes, which sits behind AEAD and is only reached by genuine and alien-peer messages). Trusted: the reference codec in sim/src/c16.rs. Own addresses a node adopted from peers come and go, so only the stable part (configured + socket address) is compared exactly.",
        "DESIGN.md section 8, C16",
        "seeded meshes with corrupting network, decoder-input adversary and an alien-version peer with an independent codec",
    ),
    "C17": (
        "exploration",
        "7/8 of the runs drive the real BeaconSerializer over the simulated clock and real files: 1-4 beacons for address lists of 0-8 IPv4 / 0-4 IPv6 entries, writer clocks inside, at the edge of and beyond the reader's age limit (50 as in the node, 0, 65535, around 32768, any), 200 passwords incl. empty, reader hour following the run index (all 65536 stamps over a thorough batch) or next to the 16 bit wrap; in 1 % of the runs the first beacon is written at the hour stamp (of all 65536) that gives the shortest text, i.e. the most leading zero bytes in the masked data; text with separators inside beacons and stray / partial / overlapping markers, 4-8 k character chunks and bursts of 20-60 short random chunks between markers; decoding directly, through a command (`cat` of a file, as beacon_load = '|cmd' does) or through a file that is torn at any byte, garbage or missing. 1/8 of the runs are 2-5 real nodes that know each other only through beacon files maintained by a publisher actor, with clocks anywhere in the hour cycle, skews up to +-160 h and three passwords. Oracles: clean texts yield exactly the concatenated address lists (IPv4 first) of the beacons with the reader's password and circular hour distance <= limit; torn files a whole-beacon prefix; with stray markers every genuine beacon is still found in order; no unwind on any text; every BeaconLoaded probe of a node equals the reference over its file; nodes with a common password and clocks within 48 h meet.",
        "Trusted: simulator clock seam, /dev/shm as the file system, the publisher actor. Texts whose only marker occurrences are those of genuine beacons are compared exactly; the one-byte beacon checksum makes a random chunk pass with probability 1/256, so texts with deliberately placed stray markers are checked for containment only.",
        "DESIGN.md section 8, C17",
        "seeded beacons x clocks x texts x file faults against a reference; beacon-only discovery between real nodes",
    ),
    "C18": (
        "exploration",
        "Node level: 1-3 key pairs per run produced by the real key generation - random keys from seeds with 0-4 leading zero bytes (optionally searched until the public key starts with a zero byte), password keys from a dictionary incl. empty, blank, unicode, NUL and 1 KiB passwords, each derived twice - and 2-5 real nodes configured from the printed text (private key with or without public key; password nodes by password or by the printed key, so one password appears in two forms; a leftover password next to a private key; a leftover public-key entry of another key pair next to a password), trusted sets any subset of the printed public keys. Oracles: key generation and public_key_from_private_key agree and never fail on generated text; every node starts; after 12 s on a reliable network exactly the mutually trusting pairs (by key material) are connected; a crashed and restarted node uses the same public key as before and as printed.",
        "Trusted: simulator seams; ring's Ed25519 as the reference for what a seed's public key is. The text codec sweep over all byte strings of length <= 2 of the quantifier is a pure-function sweep and not part of this check; what is decided here is the multi-node / multi-run part.",
        "DESIGN.md section 8, C18",
        "seeded key material with shaped seeds; mesh forms iff trust by key material",
    ),
}

NOT_APPLICABLE = {
    "C19": "pure function of one byte string (Frame::parse / Packet::parse): no schedule, clock, fault or second party for a simulator to control; input generation against a reference dissector would not be simulation (DESIGN.md section 8, C19)",
    "C20": "pure function of (defaults, file, argv) (Config::merge_*, parse_ip_netmask): nothing to schedule or fault (DESIGN.md section 8, C20)",
}

PENDING_REASON = "simulation check designed (DESIGN.md section 8) but not built yet at this commit; not claimed until it runs"


def main():
    props = [json.loads(l) for l in open(os.path.join(HERE, "properties.jsonl"))]
    ids = [p["id"] for p in props]
    hooks_commits = []
    try:
        out = subprocess.run(["git", "-C", "/repo", "log", "--format=%H %s"], capture_output=True, text=True).stdout
        for line in out.splitlines():
            h, s = line.split(" ", 1)
            if s.startswith("verif hook"):
                hooks_commits.append(h)
    except Exception:
        pass
    checks = []
    for pid in ids:
        if pid in CLAIMED:
            cat, text, note, ref, tech = CLAIMED[pid]
            checks.append({
                "property_id": pid,
                "quick_cmd": "./check %s --tier quick" % pid,
                "thorough_cmd": "./check %s --tier thorough" % pid,
                "evidence_file": "/verif/evidence/%s.json" % pid,
                "replay_cmd_template": "./check %s --replay {path}" % pid,
                "engine": "vpncloud-sim",
                "level_claimed": {"category": cat, "text": text, "design_ref": ref},
                "level_note": note,
                "technique": TECH + "; " + tech,
            })
    na = []
    for pid in ids:
        if pid in NOT_APPLICABLE:
            na.append({"property_id": pid, "reason": NOT_APPLICABLE[pid]})
        elif pid not in CLAIMED:
            na.append({"property_id": pid, "reason": PENDING_REASON})
    manifest = {
        "version": 1,
        "setup_cmd": "./check build",
        "hooks": {
            "guard": "--cfg dswd_vpncloud_verif",
            "enable": "RUSTFLAGS='--cfg dswd_vpncloud_verif' DSWD_VPNCLOUD_VERIF_ENTRY=/verif/sim/entry.rs cargo build --release --offline in /verif/sim (generated shadow manifest with [[bin]] path=/repo/src/main.rs; done by ./check build)",
            "baseline_off_cmd": "cd /repo && cargo test --workspace --no-fail-fast --offline",
            "source_commits": list(reversed(hooks_commits)),
            "add_only": True,
        },
        "engines": [
            {
                "name": "vpncloud-sim",
                "path": "/verif/sim",
                "serves_properties": sorted(CLAIMED.keys()),
                "kind_free_text": "deterministic discrete-event simulator compiled into the real crate (child module of /repo/src/main.rs): real GenericCloud/PeerCrypto/ClaimTable code on simulated sockets, devices, clocks and seeded randomness; Chooser-recorded choice traces, in-process shrinking, replay files; python3 driver ./check",
            }
        ],
        "checks": checks,
        "not_applicable": na,
        "notes": "All checks share one binary built from /repo's working tree on every invocation (cargo dep-info tracks /repo/src). VERIF_SEED (default 1) seeds a batch; run i uses mix(seed, property, i). exit 2 = harness error (build failure, determinism mismatch, replay divergence). Known findings: /verif/known_findings.json.",
    }
    with open(os.path.join(HERE, "MANIFEST.json"), "w") as f:
        json.dump(manifest, f, indent=1)
        f.write("\n")
    print("MANIFEST.json: %d checks, %d not claimed" % (len(checks), len(na)))


if __name__ == "__main__":
    main()
