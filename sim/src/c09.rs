//! C09 - established connections survive forged and replayed traffic
use std::collections::BTreeMap;
use std::net::SocketAddr;

use super::{
    chooser::Chooser,
    mesh::{self, finish, panic_violation},
    refmodel,
    rng::Rng,
    runner::{RunCtx, RunOut, Scenario, Tier, Violation},
    world::{Origin, Step, StepKind, World},
};

pub struct C09;

pub const OFFSETS_S: [u64; 12] = [0, 1, 2, 5, 30, 59, 61, 90, 119, 121, 300, 600];

fn guard(w: &World, st: &Step) -> Result<(), Violation> {
    match panic_violation(w, st, "C09") {
        Some(v) => Err(v),
        None => Ok(()),
    }
}

/// single-field edit of a recorded datagram
pub fn edit(rng: &mut Rng, d: &[u8], which: u32) -> (Vec<u8>, &'static str) {
    let mut v = d.to_vec();
    if let Some(lay) = refmodel::handshake_layout(d) {
        // fields: stage, node-id hash, ecdh key, cipher list, payload, signature length, signature bytes
        let targets: Vec<(usize, usize, &'static str)> = {
            let mut t = vec![];
            for (tag, _at, body, len) in &lay.parts {
                if *len == 0 {
                    continue;
                }
                t.push((*body, *len, match tag {
                    1 => "edit-stage",
                    2 => "edit-node-id-hash",
                    3 => "edit-ecdh-key",
                    4 => "edit-cipher-list",
                    5 => "edit-payload",
                    _ => "edit-unknown-part",
                }));
            }
            for (_tag, at, _body, _len) in &lay.parts {
                t.push((*at + 1, 2, "edit-part-length"));
            }
            if lay.siglen_at < d.len() {
                t.push((lay.siglen_at, 1, "edit-signature-length"));
            }
            if lay.sig_at < d.len() {
                t.push((lay.sig_at, d.len() - lay.sig_at, "edit-signature-bytes"));
            }
            t
        };
        if !targets.is_empty() {
            let (at, len, name) = targets[which as usize % targets.len()];
            let p = at + rng.below(len as u64) as usize;
            if name == "edit-stage" {
                v[p] = 1 + (v[p] % 3);
            } else if name == "edit-part-length" {
                let cur = u16::from_be_bytes([v[at], v[at + 1]]);
                let nv = match rng.below(6) {
                    0 => 0,
                    1 => 0xffff,
                    2 => 0xfff8,
                    3 => cur.wrapping_add(1),
                    4 => cur.wrapping_sub(1),
                    _ => rng.next() as u16,
                };
                v[at..at + 2].copy_from_slice(&nv.to_be_bytes());
            } else {
                v[p] ^= 1 << rng.below(8);
            }
            return (v, name);
        }
    }
    if v.len() >= 24 {
        match which % 3 {
            0 => {
                // key id: another slot, the first values beyond the four slots, or a high bit set
                match rng.below(3) {
                    0 => v[0] ^= 1 + (rng.below(3) as u8),
                    1 => v[0] = 4 + rng.below(4) as u8,
                    _ => v[0] = [8u8, 16, 32, 64, 128, 254, 0x7f][rng.below(7) as usize],
                }
                (v, "edit-key-id")
            }
            1 => {
                let p = 1 + rng.below(7) as usize;
                v[p] ^= 1 << rng.below(8);
                (v, "edit-counter")
            }
            _ => {
                let p = 8 + rng.below((v.len() - 8) as u64) as usize;
                v[p] ^= 1 << rng.below(8);
                (v, "edit-ciphertext-or-tag")
            }
        }
    } else {
        if !v.is_empty() {
            let p = rng.below(v.len() as u64) as usize;
            v[p] ^= 1;
        }
        (v, "edit-short")
    }
}

fn scenario(w: &mut World, ctx: &RunCtx, states: &mut Vec<u64>) -> Result<(), Violation> {
    // fault enumeration: the grid offset x source x {verbatim, edited} is walked by the run index
    let cell = ctx.index % 72;
    let offset_s = OFFSETS_S[(cell % 12) as usize];
    let src_kind = (cell / 12) % 3; // 0 original, 1 another peer, 2 unknown
    let edited = cell / 36 == 1;
    w.count(match src_kind {
        0 => "c09_source_original",
        1 => "c09_source_other_peer",
        _ => "c09_source_unknown",
    });
    w.count(if edited { "c09_edited" } else { "c09_verbatim" });
    let k = w.add_key(None);
    let n = if src_kind == 1 { 3 } else { 2 + w.ch.choose("third_node", 2) as usize };
    let fam = w.ch.choose("addr_family", 2) as u8;
    let timeout = *w.ch.pick("peer_timeout", &[300u32, 120]);
    for i in 0..n {
        let mut c = mesh::tun_node(i);
        c.key = k;
        c.peer_timeout = timeout;
        c.tick_phase_ms = w.ch.choose("tick_phase", 1000) as u64;
        if w.ch.chance("single_cipher", 300) {
            c.algorithms = vec![["aes128", "aes256", "chacha20"][w.ch.choose("cipher", 3) as usize].to_string()];
        }
        w.add_node(c, fam);
    }
    for i in 0..n {
        for j in 0..i {
            match w.ch.choose("orientation", 3) {
                0 => {
                    let t = mesh::peer_text(w, j);
                    w.nodes[i].cfg.peers.push(t)
                }
                1 => {
                    let t = mesh::peer_text(w, i);
                    w.nodes[j].cfg.peers.push(t)
                }
                _ => {
                    let t = mesh::peer_text(w, j);
                    w.nodes[i].cfg.peers.push(t);
                    let t = mesh::peer_text(w, i);
                    w.nodes[j].cfg.peers.push(t);
                }
            }
        }
    }
    w.net.jitter_ms = 10;
    for i in 0..n {
        let st = w.start_node(i);
        guard(w, &st)?;
    }
    let pairs = mesh::all_pairs(n);
    if !mesh::run_until_connected(w, &pairs, 10_000, |w, st| guard(w, st))? {
        w.count("c09_not_established");
        return Ok(());
    }
    // operation phase whose datagrams are recorded too: probes, node infos
    let record_s = 3 + w.ch.choose("record_s", 8) as u64;
    let t0 = w.now_ms;
    let mut counter = 0u32;
    // probe bookkeeping: marker -> (from, to, sent at ms)
    let mut probes: BTreeMap<u32, (usize, usize, u64, Vec<u8>)> = BTreeMap::new();
    let total_s = record_s + offset_s + 400 + 5;
    let mut next_probe_s = 1u64;
    let mut recorded_until = 0usize;
    let mut injected = false;
    let mut body_rng = Rng::new(w.ch.seed32("edit_seed") as u64);
    let unknown = mesh::unknown_addr(7);
    let mut inject_ids: Vec<(usize, usize, &'static str)> = vec![]; // (wire id, original wire id, kind)
    let end_ms = t0 + total_s * 1000;
    let mut first_write_checked = w.dev_writes.len();
    let mut delivered: BTreeMap<u32, u32> = BTreeMap::new();
    loop {
        // schedule this second's probes
        let now_s = (w.now_ms - t0) / 1000;
        while next_probe_s <= now_s + 1 && next_probe_s < total_s {
            for (a, b) in &pairs {
                counter += 1;
                let m = mesh::marker(w, counter);
                let f = mesh::ipv4_packet(mesh::tun_ip(*a), mesh::tun_ip(*b), &m);
                let at = t0 + next_probe_s * 1000 + (counter as u64 * 37) % 900;
                probes.insert(counter, (*a, *b, at, f.clone()));
                w.schedule_frame(at, *a, f);
            }
            next_probe_s += 1;
        }
        // after the recording phase: schedule the re-injection of everything recorded
        if !injected && w.now_ms >= t0 + record_s * 1000 {
            injected = true;
            recorded_until = w.wire.len();
            let rec: Vec<usize> = (0..recorded_until).filter(|i| w.wire[*i].from_node.is_some() && matches!(w.wire[*i].origin, Origin::Genuine) && !w.wire[*i].data.is_empty()).collect();
            for id in rec {
                let (t_rec, o_src, o_dst, from_node) = (w.wire[id].t_ms, w.wire[id].src, w.wire[id].dst, w.wire[id].from_node);
                let data = (*w.wire[id].data).clone();
                let src: SocketAddr = match src_kind {
                    0 => o_src,
                    1 => {
                        // another peer of the destination
                        let dst_node = w.node_by_addr(o_dst);
                        let other = (0..n).find(|x| Some(*x) != dst_node && Some(*x) != from_node);
                        match other {
                            Some(x) => w.nodes[x].addr,
                            None => unknown,
                        }
                    }
                    _ => unknown,
                };
                let (data, kind) = if edited {
                    let wsel = w.ch.choose("edit_field", 12);
                    edit(&mut body_rng, &data, wsel)
                } else {
                    (data, "verbatim")
                };
                let at = t_rec + offset_s * 1000;
                let delay = at.saturating_sub(w.now_ms);
                let wid = w.inject(src, o_dst, data, delay, kind);
                inject_ids.push((wid, id, kind));
            }
            w.count_n("c09_datagrams_reinjected", inject_ids.len() as u64);
            w.note(|| format!("adversary re-injects {} recorded datagrams {} s after their first transmission ({}, source kind {})", inject_ids.len(), offset_s, if edited { "one field edited" } else { "verbatim" }, src_kind));
            states.push(mesh::abstract_state(w));
        }
        let until = (w.now_ms + 1000).min(end_ms);
        while let Some(st) = w.step(until) {
            guard(w, &st)?;
            if let StepKind::Tick { node } = st.kind {
                // connected, with routes, at every tick
                for other in 0..n {
                    if other == node {
                        continue;
                    }
                    if !w.is_connected(node, other) {
                        return Err(Violation::new(
                            "stay-connected",
                            "connection-lost",
                            format!("n{} no longer lists n{} as peer at t={:.1}s ({} s after the first re-injection; replay offset {} s, {}, source kind {}){}", node, other, w.now_ms as f64 / 1000.0, (w.now_ms.saturating_sub(t0 + record_s * 1000)) / 1000, offset_s, if edited { "edited" } else { "verbatim" }, src_kind, mesh::dump_state(w)),
                        ));
                    }
                    let oaddr = w.nodes[other].addr;
                    let has_route = w.snapshot(node).map(|s| s.table.claims.iter().any(|c| c.1 == oaddr)).unwrap_or(false);
                    if !has_route {
                        return Err(Violation::new("stay-connected", "routes-lost", format!("n{} lost the claims of n{} at t={:.1}s", node, other, w.now_ms as f64 / 1000.0)));
                    }
                }
                w.count("c09_ticks_checked");
            }
        }
        // account device writes
        for dw in &w.dev_writes[first_write_checked..] {
            if let Some(m) = mesh::find_marker(&dw.data) {
                *delivered.entry(m).or_insert(0) += 1;
                if let Some((_, to, _, f)) = probes.get(&m) {
                    if dw.node != *to || dw.data != *f {
                        return Err(Violation::new("payload", "probe-delivered-wrong", format!("probe {} was written at n{} ({} bytes)", m, dw.node, dw.data.len())));
                    }
                }
            }
        }
        first_write_checked = w.dev_writes.len();
        // every probe sent more than 1.5 s ago has been delivered exactly once
        let now = w.now_ms;
        let mut done = vec![];
        for (m, (a, b, at, _)) in &probes {
            if *at + 1500 > now {
                continue;
            }
            done.push(*m);
            let got = delivered.get(m).copied().unwrap_or(0);
            w.count("c09_probes_checked");
            if got == 0 {
                return Err(Violation::new(
                    "payload",
                    "probe-lost",
                    format!("probe frame {} from n{} to n{} sent at t={:.1}s was never delivered (replay offset {} s, {}, source kind {}; first re-injection at t={:.1}s){}", m, a, b, *at as f64 / 1000.0, offset_s, if edited { "edited" } else { "verbatim" }, src_kind, (t0 + record_s * 1000) as f64 / 1000.0, mesh::dump_state(w)),
                ));
            }
            if got > 1 {
                // a second copy is only legitimate for a verbatim replay from the original source inside the replay window
                let in_window = !edited && src_kind == 0 && offset_s <= 5;
                if !in_window {
                    return Err(Violation::new("payload", "probe-delivered-twice", format!("probe frame {} from n{} to n{} was delivered {} times (replay offset {} s)", m, a, b, got, offset_s)));
                }
                w.count("c09_in_window_duplicates");
            }
        }
        for m in done {
            probes.remove(&m);
        }
        if w.now_ms >= end_ms {
            break;
        }
    }
    let _ = recorded_until;
    states.push(mesh::abstract_state(w));
    Ok(())
}

impl Scenario for C09 {
    fn id(&self) -> &'static str {
        "C09"
    }

    fn run(&self, seed: u64, ch: Chooser, ctx: &RunCtx) -> RunOut {
        let mut w = mesh::new_world(seed, ch, ctx);
        let mut states = vec![];
        let res = scenario(&mut w, ctx, &mut states);
        let nontrivial = w.counters.get("c09_datagrams_reinjected").copied().unwrap_or(0) > 0 && w.counters.get("c09_probes_checked").copied().unwrap_or(0) > 0;
        finish(w, res, nontrivial, states)
    }

    fn budget(&self, tier: Tier) -> (u64, u64) {
        match tier {
            Tier::Quick => (72 * 40, 150),
            Tier::Thorough => (72 * 3000, 1500),
        }
    }

    fn level(&self) -> &'static str {
        "fault_enumeration"
    }

    fn rule(&self) -> &'static str {
        "2-3 real nodes on a clean network, every pair configured in one or both directions; establishment plus 3-10 s of operation are recorded; run i takes cell i mod 72 of the grid replay offset {0,1,2,5,30,59,61,90,119,121,300,600} s x source address {original, another peer, unknown} x {verbatim, one field edited}: EVERY recorded datagram (handshake, node info, data, rotation) is re-injected at its original destination at (its first transmission + offset); one marked probe frame per second in both directions on every connection from establishment until 400 s after the last re-injection. Oracle: at every tick every pair is still connected and holds the other's claims; every probe is delivered byte-identical exactly once (a second copy only for verbatim replays from the original source at offsets <= 5 s). Non-trivial: datagrams were re-injected and probes were checked."
    }

    fn expected_probes(&self) -> Vec<&'static str> {
        vec!["c09_ticks_checked", "c09_probes_checked", "c09_source_other_peer", "c09_edited", "c09_in_window_duplicates"]
    }
}
