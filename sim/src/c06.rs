//! C06 - see l1.rs (pair level scenarios)
use super::{
    chooser::Chooser,
    l1,
    runner::{RunCtx, RunOut, Scenario, Tier},
};

pub struct C06;

impl Scenario for C06 {
    fn id(&self) -> &'static str {
        "C06"
    }

    fn run(&self, seed: u64, ch: Chooser, ctx: &RunCtx) -> RunOut {
        l1::c06(seed, ch, ctx)
    }

    fn budget(&self, tier: Tier) -> (u64, u64) {
        match tier {
            Tier::Quick => (225 * 40, 120),
            Tier::Thorough => (225 * 2000, 1500),
        }
    }

    fn level(&self) -> &'static str {
        "fault_enumeration"
    }

    fn rule(&self) -> &'static str {
        "run i takes the pair of non-empty subsets of {plain, aes128, aes256, chacha20} number i mod 225 (all 225 pairs are covered every 225 runs; the empty list means 'defaults' to the configuration parser and is the 3-cipher set); speeds per cipher and side from the grid {0, 1, 50, 50 (tie), 400, 3.4e38, and the fractional near-ties 0.4, 0.6, 99.6, 100.2, 100.4, 100.5}; 2-4 variants per run with independent random orders of both lists and initiator in {A, B, both at once}, in 40 % of the runs one variant has the cipher list of the first ping/pong edited in transit (algorithm id, a speed byte, the list length). Oracle: independent reference (plain iff both allow it, else a common cipher whose slower side is fastest, else none): both ends equal and among the reference maximisers, clean 'no common algorithms' failure iff none is shared, never plain without mutual consent, the same cipher under every order and initiator assignment, an edited list is rejected without state change and the genuine retransmission still yields the reference cipher, established ends open each other's datagrams. Non-trivial: at least one negotiation was checked."
    }

    fn expected_probes(&self) -> Vec<&'static str> {
        vec!["c06_expect_plain", "c06_expect_no_common", "c06_expect_tie", "c06_expect_unique_cipher", "c06_lists_edited_in_flight"]
    }
}
