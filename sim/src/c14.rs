//! C14 - full mesh from any connected bootstrap; a node never peers with itself
use std::net::SocketAddr;

use super::{
    chooser::Chooser,
    mesh::{self, finish, panic_violation},
    runner::{RunCtx, RunOut, Scenario, Tier, Violation},
    world::{addr_text, Step, World},
};

pub struct C14;

fn guard(w: &World, st: &Step) -> Result<(), Violation> {
    match panic_violation(w, st, "C14") {
        Some(v) => Err(v),
        None => Ok(()),
    }
}

/// invariant: no node lists itself as a peer - neither by node id nor by an address that reaches itself
fn check_no_self_peer(w: &mut World, st: &Step) -> Result<(), Violation> {
    let n = match st.node {
        Some(n) => n,
        None => return Ok(()),
    };
    let snap = match w.snapshot(n) {
        Some(s) => s,
        None => return Ok(()),
    };
    for p in &snap.peers {
        let by_id = p.node_id == snap.node_id;
        let by_addr = w.node_by_addr(p.addr) == Some(n);
        if by_id || by_addr {
            return Err(Violation::new(
                "never-self",
                if by_id { "self-peer-by-node-id" } else { "self-peer-by-address" },
                format!("n{} lists itself as a peer under address {} (own addresses {:?})", n, p.addr, snap.own_addresses),
            ));
        }
    }
    Ok(())
}

fn alias_addr(k: u16) -> SocketAddr {
    crate::net::mapped_addr(SocketAddr::new(std::net::IpAddr::V4(std::net::Ipv4Addr::new(198, 51, 100, k as u8)), 3210))
}

/// diameter of the undirected bootstrap graph
fn diameter(n: usize, edges: &[(usize, usize)]) -> usize {
    let mut d = vec![vec![usize::MAX / 2; n]; n];
    for i in 0..n {
        d[i][i] = 0;
    }
    for (a, b) in edges {
        d[*a][*b] = 1;
        d[*b][*a] = 1;
    }
    for k in 0..n {
        for i in 0..n {
            for j in 0..n {
                if d[i][k] + d[k][j] < d[i][j] {
                    d[i][j] = d[i][k] + d[k][j];
                }
            }
        }
    }
    let mut m = 0;
    for i in 0..n {
        for j in 0..n {
            m = m.max(d[i][j]);
        }
    }
    m
}

fn mesh_scenario(w: &mut World, ctx: &RunCtx, states: &mut Vec<u64>) -> Result<(), Violation> {
    w.count("c14_shape_mesh");
    let k = w.add_key(None);
    let max_n = if ctx.tier == Tier::Thorough { 8 } else { 6 };
    let n = match w.ch.weighted("nodes", &[2, 3, 4, 4, 2, 1, 1]) {
        i => (2 + i).min(max_n),
    };
    let fam = w.ch.choose("addr_family", 2) as u8;
    let use_nat = w.ch.chance("use_nat", 400);
    let mut nat = vec![false; n];
    if use_nat {
        for i in 1..n {
            nat[i] = w.ch.chance("nat_node", 500);
        }
    }
    let tap = w.ch.chance("tap", 300);
    // translating NATs with a port forward: the node is seen and reached under a public address only
    let use_xlat = w.ch.chance("use_translating_nat", 300);
    let many_addrs = w.ch.chance("use_many_advertised_addresses", 300);
    // unencrypted meshes (everybody enabled 'plain') grow like any other
    let plain = w.ch.chance("plain_mesh", 150);
    if plain {
        w.count("c14_plain_meshes");
    }
    for i in 0..n {
        let mut c = if tap { mesh::tap_node(i) } else { mesh::tun_node(i) };
        c.key = k;
        c.nat = nat[i];
        c.tick_phase_ms = w.ch.choose("tick_phase", 1000) as u64;
        if plain {
            c.algorithms = vec!["plain".into()];
        }
        if many_addrs {
            // advertised addresses nobody listens on (0..=9 per family)
            let count = *w.ch.pick("advertised_count", &[0u32, 1, 3, 6, 7, 8, 9]);
            let v6 = w.ch.chance("advertised_v6", 400);
            for a in 0..count {
                c.advertise.push(if v6 { format!("[2001:db8::{:x}:{:x}]:3210", i + 1, a + 1) } else { format!("203.0.113.{}:{}", 1 + i * 10 + a as usize, 3210) });
            }
            if count >= 7 {
                w.count("c14_node_with_7_or_more_advertised");
            }
        }
        w.add_node(c, fam);
        if use_xlat && !nat[i] && i > 0 && w.ch.chance("translated_node", 600) {
            w.set_public_addr(i, alias_addr(10 + i as u16));
            w.count("c14_translated_node");
        }
    }
    // random connected graph: spanning tree + extra edges
    let mut edges: Vec<(usize, usize)> = vec![];
    for i in 1..n {
        let j = w.ch.choose("tree_parent", i as u32) as usize;
        edges.push((j, i));
    }
    let extra = w.ch.choose("extra_edges", (n as u32).min(4));
    for _ in 0..extra {
        let a = w.ch.choose("edge_a", n as u32) as usize;
        let b = w.ch.choose("edge_b", n as u32) as usize;
        if a != b && !edges.contains(&(a, b)) && !edges.contains(&(b, a)) {
            edges.push((a.min(b), a.max(b)));
        }
    }
    // with NAT the graph must stay connected through dials that can get through: NAT nodes dial
    // public nodes; two NAT nodes dial each other
    let public: Vec<usize> = (0..n).filter(|i| !nat[*i]).collect();
    for (a, b) in edges.clone() {
        let orient = if nat[a] && nat[b] {
            2
        } else if nat[a] {
            0
        } else if nat[b] {
            1
        } else {
            w.ch.choose("orientation", 3)
        };
        if orient == 0 || orient == 2 {
            let t = mesh::peer_text(w, b);
            w.nodes[a].cfg.peers.push(t);
        }
        if orient == 1 || orient == 2 {
            let t = mesh::peer_text(w, a);
            w.nodes[b].cfg.peers.push(t);
        }
    }
    if use_nat {
        // every NAT node also dials one public node, otherwise two NAT-only components could never meet
        for i in 0..n {
            if nat[i] && !public.is_empty() {
                let p = *w.ch.pick("nat_hub", &public);
                let t = mesh::peer_text(w, p);
                if !w.nodes[i].cfg.peers.contains(&t) {
                    w.nodes[i].cfg.peers.push(t);
                    edges.push((i.min(p), i.max(p)));
                }
            }
        }
        w.count("c14_mesh_with_nat");
    }
    let diam = diameter(n, &edges);
    // staggered starts
    // one node may come up only after the handshakes that were waiting for it have given up (240 s): the dial is
    // repeated by the reconnect timer (back-off below 64 s at that point)
    let very_late = if w.ch.chance("very_late_start", 150) { Some(w.ch.choose("very_late_node", n as u32) as usize) } else { None };
    let mut last_start = 0u64;
    let crash_mid = if w.ch.chance("crash_in_mid_handshake", 60) { Some(w.ch.choose("crash_mid_node", n as u32) as usize) } else { None };
    if crash_mid.is_some() {
        // a restarted node and a peer whose handshake object still lingers bounce repeated handshake messages at
        // round-trip speed for up to two minutes: a longer round trip keeps such runs affordable
        w.net.base_ms = 80;
    }
    for i in 0..n {
        let delay = if very_late == Some(i) {
            w.count("c14_node_started_after_handshake_horizon");
            250_000 + w.ch.choose("very_late_ms", 400_000) as u64
        } else if w.ch.chance("late_start", 300) {
            w.ch.choose("start_delay_ms", 30_000) as u64
        } else {
            0
        };
        last_start = last_start.max(delay);
        w.schedule_action(delay, 1, i as u64);
        // a node may crash in the middle of its first handshakes and come back on the same address: the half-open
        // handshakes it leaves behind at its peers must not keep it out for good
        if crash_mid == Some(i) {
            let at = delay + 2 + w.ch.choose("crash_after_ms", 60) as u64;
            let back = at + 300 + w.ch.choose("crash_down_ms", 4_000) as u64;
            w.schedule_action(at, 2, i as u64);
            w.schedule_action(back, 1, i as u64);
            last_start = last_start.max(back);
            w.count("c14_crashes_in_mid_handshake");
        }
    }
    let interval_s = 90u64; // default peer timeout 300: min(300/2-60, ...) = 90
    let bound_s = if use_nat { 10 * interval_s } else { (diam as u64 + 2) * interval_s } + 30 + 30 + if very_late.is_some() { last_start / 1000 + 130 } else { 0 } + if crash_mid.is_some() { last_start / 1000 + 330 } else { 0 };
    let deadline = bound_s * 1000;
    let pairs = mesh::all_pairs(n);
    let mut meshed_at = None;
    let mut next_check = 0;
    while let Some(st) = w.step(deadline) {
        guard(w, &st)?;
        if let super::world::StepKind::Action(2, i) = st.kind {
            if w.is_up(i as usize) {
                w.crash_node(i as usize);
            }
        }
        if let super::world::StepKind::Action(1, i) = st.kind {
            let s = w.start_node(i as usize);
            guard(w, &s)?;
            if let Some(e) = &w.nodes[i as usize].start_error {
                return Err(Violation::new("node-starts", "start-error", format!("n{}: {}", i, e)));
            }
        }
        check_no_self_peer(w, &st)?;
        if w.now_ms >= next_check {
            next_check = w.now_ms + 500;
            if (0..n).all(|i| w.is_up(i)) && pairs.iter().all(|(a, b)| w.is_connected(*a, *b)) {
                meshed_at = Some(w.now_ms);
                break;
            }
        }
    }
    states.push(mesh::abstract_state(w));
    w.count("c14_mesh_checked");
    match meshed_at {
        Some(t) => {
            if t > 60_000 {
                w.count("c14_mesh_took_over_60s");
            }
            w.count_n("c14_mesh_time_s_total", t / 1000);
            if t > 180_000 {
                w.count("c14_mesh_took_over_180s");
            }
        }
        None => {
            let missing: Vec<String> = pairs.iter().filter(|(a, b)| !w.is_connected(*a, *b)).map(|(a, b)| format!("n{}->n{}", a, b)).collect();
            return Err(Violation::new(
                "full-mesh",
                if use_nat { "mesh-incomplete-with-nat" } else { "mesh-incomplete" },
                format!("bootstrap graph {:?} (diameter {}, nat {:?}) is not fully meshed after {} s on a reliable network; missing {}{}", edges, diam, nat, bound_s, missing.join(","), mesh::dump_state(w)),
            ));
        }
    }
    // stays meshed, and nobody peers with itself, for a while longer (own-address reset happens at 300 s)
    let until = w.now_ms + 400_000;
    w.run_until(until, |w, st| {
        guard(w, st)?;
        check_no_self_peer(w, st)
    })?;
    if !pairs.iter().all(|(a, b)| w.is_connected(*a, *b)) {
        return Err(Violation::new("full-mesh", "mesh-fell-apart", format!("a complete mesh on a reliable network lost a connection{}", mesh::dump_state(w))));
    }
    Ok(())
}

fn self_dial_scenario(w: &mut World, _ctx: &RunCtx, states: &mut Vec<u64>) -> Result<(), Violation> {
    w.count("c14_shape_self_dial");
    let k = w.add_key(None);
    let fam = w.ch.choose("addr_family", 2) as u8;
    let in_mesh = w.ch.chance("inside_mesh", 600);
    let n = if in_mesh { 2 + w.ch.choose("mesh_nodes", 2) as usize } else { 1 };
    for i in 0..n {
        let mut c = mesh::tun_node(i);
        c.key = k;
        c.tick_phase_ms = w.ch.choose("tick_phase", 1000) as u64;
        w.add_node(c, fam);
    }
    // node 0 sits behind a translating NAT with a port forward: everybody else sees and reaches it as Y,
    // its socket address is internal. Its own datagrams to Y (hair-pin) come back with source:
    // 0 = its socket address, 1 = Y, 2 = a third address Z (also leading to node 0)
    let y = alias_addr(1);
    let z = alias_addr(2);
    w.aliases.insert(y, 0);
    w.aliases.insert(z, 0);
    w.public_addr.insert(0, y);
    let src_mode = w.ch.choose("loop_source", 3);
    match src_mode {
        0 => {}
        1 => {
            w.alias_src.insert(y, y);
        }
        _ => {
            w.alias_src.insert(y, z);
            w.alias_src.insert(z, y);
        }
    }
    w.count(match src_mode {
        0 => "c14_loop_source_own_socket",
        1 => "c14_loop_source_alias",
        _ => "c14_loop_source_third",
    });
    // how node 0 comes to dial Y: configured by the user, advertised by itself (peers hand it back), or
    // only told by peers that reach it through Y
    let how = if n == 1 { w.ch.choose("how_dialled", 2) } else { w.ch.choose("how_dialled", 3) };
    // sometimes the node is told to dial two of its own public addresses (crosswise loop-back with source mode 2)
    if w.ch.chance("dial_second_own_address", 300) {
        w.nodes[0].cfg.peers.push(addr_text(z));
        w.count("c14_two_own_addresses_dialled");
    }
    match how {
        0 => w.nodes[0].cfg.peers.push(addr_text(y)),
        1 => {
            w.nodes[0].cfg.advertise.push(addr_text(y));
            w.nodes[0].cfg.peers.push(addr_text(y));
        }
        _ => {}
    }
    w.count(match how {
        0 => "c14_self_dial_configured",
        1 => "c14_self_dial_advertised",
        _ => "c14_self_listed_by_peers_only",
    });
    // the others know node 0 as Y; dial orientation per edge as usual
    for i in 1..n {
        match w.ch.choose("orientation", 3) {
            0 => w.nodes[i].cfg.peers.push(addr_text(y)),
            1 => {
                let t = mesh::peer_text(w, i);
                w.nodes[0].cfg.peers.push(t)
            }
            _ => {
                w.nodes[i].cfg.peers.push(addr_text(y));
                let t = mesh::peer_text(w, i);
                w.nodes[0].cfg.peers.push(t)
            }
        }
        if i > 1 {
            let t = mesh::peer_text(w, 1);
            w.nodes[i].cfg.peers.push(t);
        }
    }
    for i in 0..n {
        let st = w.start_node(i);
        guard(w, &st)?;
        check_no_self_peer(w, &st)?;
    }
    let mut adopted = false;
    let mut prev: Option<crate::verif::NodeSnapshot> = w.snapshot(0);
    let until = 700_000;
    while let Some(st) = w.step(until) {
        guard(w, &st)?;
        check_no_self_peer(w, &st)?;
        if st.node != Some(0) {
            continue;
        }
        let snap = match w.snapshot(0) {
            Some(s) => s,
            None => continue,
        };
        // (1) an address a peer lists under node 0's identity is adopted as own address
        for ev in &st.probes {
            if let crate::verif::Event::Message { kind: 1, src } = ev {
                if let Some(j) = w.node_by_addr(*src) {
                    if let Some(sj) = w.snapshot(j) {
                        let lists_y = sj.peers.iter().any(|p| p.node_id == snap.node_id && p.addrs.contains(&y));
                        if lists_y && j != 0 {
                            w.count("c14_listed_under_own_identity");
                            if !snap.own_addresses.contains(&y) {
                                return Err(Violation::new(
                                    "adopt-own-address",
                                    "listed-address-not-adopted",
                                    format!("n{} listed n0 under {} but n0's own addresses are {:?}", j, y, snap.own_addresses),
                                ));
                            }
                        }
                    }
                }
            }
        }
        // (2) while adopted, no new dial to it (retransmissions of an attempt that was already pending
        // when the address was adopted do not count)
        if let Some(p) = &prev {
            let was_adopted = p.own_addresses.contains(&y) && snap.own_addresses.contains(&y);
            let was_pending = p.pending.iter().any(|(a, _)| *a == y);
            if was_adopted && !was_pending {
                for id in &st.sent {
                    let r = &w.wire[*id];
                    if r.dst == y && World::is_init_datagram(&r.data) {
                        return Err(Violation::new("adopt-own-address", "own-address-dialled", format!("n0 dialled {} although it had adopted it as its own address", y)));
                    }
                }
            }
        }
        if snap.own_addresses.contains(&y) {
            adopted = true;
        }
        prev = Some(snap);
    }
    states.push(mesh::abstract_state(w));
    w.count("c14_self_dial_checked");
    if adopted {
        w.count("c14_own_address_adopted");
    }
    // a peer that reached node 0 through Y has to list it under Y, so node 0 must have adopted Y
    if n > 1 && !adopted {
        let via_y = (1..n).any(|j| w.snapshot(j).map(|s| s.peers.iter().any(|p| p.addr == y)).unwrap_or(false));
        if via_y {
            return Err(Violation::new(
                "adopt-own-address",
                "seen-address-never-handed-back",
                format!("peers are connected to n0 through {} for 700 s but n0 never adopted it as own address (peers must list the address a node is seen from){}", y, mesh::dump_state(w)),
            ));
        }
    }
    // mesh members must still be connected to node 0 and each other
    if n > 1 {
        let pairs = mesh::all_pairs(n);
        if !pairs.iter().all(|(a, b)| w.is_connected(*a, *b)) {
            return Err(Violation::new("full-mesh", "mesh-incomplete-with-self-dial", format!("mesh with a self-dialling node is not complete after 700 s{}", mesh::dump_state(w))));
        }
    }
    Ok(())
}

impl Scenario for C14 {
    fn id(&self) -> &'static str {
        "C14"
    }

    fn run(&self, seed: u64, ch: Chooser, ctx: &RunCtx) -> RunOut {
        let mut w = mesh::new_world(seed, ch, ctx);
        let mut states = vec![];
        let res = if ctx.index % 3 == 2 { self_dial_scenario(&mut w, ctx, &mut states) } else { mesh_scenario(&mut w, ctx, &mut states) };
        let nontrivial = w.counters.get("c14_mesh_checked").copied().unwrap_or(0) + w.counters.get("c14_self_dial_checked").copied().unwrap_or(0) > 0;
        finish(w, res, nontrivial, states)
    }

    fn budget(&self, tier: Tier) -> (u64, u64) {
        match tier {
            Tier::Quick => (3000, 120),
            Tier::Thorough => (100_000, 1500),
        }
    }

    fn rule(&self) -> &'static str {
        "2/3 of the runs: random connected labelled bootstrap graph on 2-6 nodes (thorough: up to 8; spanning tree + extra edges), each edge dialled in one or both directions, NAT per node in 40 % of the runs (NAT nodes dial public nodes, two NAT nodes dial each other), staggered starts, reliable network; oracle: every pair mutually connected within (diameter+2) announcement intervals of 90 s (+60 s; with NAT: 10 intervals) and still so 400 s later; after every step no node lists itself as a peer (by node id or by an address that reaches it). 1/3 of the runs: node 0 reachable through alias Y; its datagrams to Y come back with source in {own socket, Y, third address}; it dials Y because Y is configured, advertised, or a peer reached it through Y; alone and inside a 2-3 node mesh; same self-peer invariant, mesh complete after 700 s. Non-trivial: the mesh/self-dial oracle was evaluated. Distinct = distinct event-sequence hashes."
    }

    fn expected_probes(&self) -> Vec<&'static str> {
        vec!["c14_mesh_with_nat", "nat_filtered", "c14_listed_under_own_identity", "c14_translated_node", "c14_two_own_addresses_dialled", "c14_node_with_7_or_more_advertised", "c14_loop_source_own_socket", "c14_loop_source_alias", "c14_loop_source_third", "c14_own_address_adopted", "c14_mesh_took_over_60s"]
    }
}
