//! Small executable reference models used as oracles (written independently of the code under test).
use ring::{digest, signature};

/// Reference parse of a handshake datagram as the receiver sees it (first byte 0xff, then 4 byte salt, 4 byte
/// key hash, TLV parts until a 0 tag, signature length, signature). `bytes` must include whatever follows
/// the datagram in the receive buffer, because the receiver parses beyond the datagram length.
#[derive(Debug, Clone, PartialEq)]
pub struct RefInit {
    pub stage: Option<u8>,
    pub node_hash: Option<[u8; 20]>,
    pub ecdh: Option<Vec<u8>>,
    pub algos: Option<Vec<(u8, f32)>>,
    pub payload: Option<Vec<u8>>,
    pub signed_len: usize,
    pub total_len: usize,
    pub key: usize,
}

pub fn key_hash(key: &[u8; 32], salt: &[u8]) -> [u8; 4] {
    let mut d = Vec::with_capacity(36);
    d.extend_from_slice(key);
    d.extend_from_slice(salt);
    let h = digest::digest(&digest::SHA256, &d);
    let mut r = [0; 4];
    r.copy_from_slice(&h.as_ref()[..4]);
    r
}

/// Returns Some(parsed) iff the bytes start with a handshake message carrying a valid signature of one of
/// `keys` (the first key whose salted hash matches is the only one tried, as in the protocol).
pub fn verify_handshake(bytes: &[u8], keys: &[[u8; 32]]) -> Option<RefInit> {
    if bytes.len() < 9 || bytes[0] != 0xff {
        return None;
    }
    let b = &bytes[1..];
    let salt = &b[0..4];
    let hash = &b[4..8];
    let key = keys.iter().position(|k| key_hash(k, salt) == hash)?;
    let mut pos = 8;
    let mut r = RefInit { stage: None, node_hash: None, ecdh: None, algos: None, payload: None, signed_len: 0, total_len: 0, key };
    loop {
        let tag = *b.get(pos)?;
        pos += 1;
        if tag == 0 {
            break;
        }
        let len = u16::from_be_bytes([*b.get(pos)?, *b.get(pos + 1)?]) as usize;
        pos += 2;
        let need = if tag == 4 { (len / 5) * 5 } else { len };
        let body = b.get(pos..pos + need)?;
        match tag {
            1 => {
                if len != 1 {
                    return None;
                }
                r.stage = Some(body[0]);
            }
            2 => {
                if len != 20 {
                    return None;
                }
                let mut h = [0; 20];
                h.copy_from_slice(body);
                r.node_hash = Some(h);
            }
            3 => r.ecdh = Some(body.to_vec()),
            4 => {
                let count = len / 5;
                let mut v = vec![];
                for i in 0..count {
                    let id = body[i * 5];
                    let sp = f32::from_be_bytes([body[i * 5 + 1], body[i * 5 + 2], body[i * 5 + 3], body[i * 5 + 4]]);
                    v.push((id, sp));
                }
                r.algos = Some(v);
                // the real parser consumes only count*5 bytes of this part; what follows is parsed as the next tag
                pos += count * 5;
                continue;
            }
            5 => r.payload = Some(body.to_vec()),
            _ => {}
        }
        pos += len;
    }
    r.signed_len = pos;
    let siglen = *b.get(pos)? as usize;
    let sig = b.get(pos + 1..pos + 1 + siglen)?;
    r.total_len = 1 + pos + 1 + siglen;
    let pk = signature::UnparsedPublicKey::new(&signature::ED25519, &keys[key]);
    pk.verify(&b[..pos], sig).ok()?;
    Some(r)
}

/// Positions (offset, width) of length fields and other structure in a handshake datagram, for aimed edits
#[derive(Debug, Clone)]
pub struct InitLayout {
    /// (tag, offset of tag byte, body offset, body len)
    pub parts: Vec<(u8, usize, usize, usize)>,
    pub end_tag: usize,
    pub siglen_at: usize,
    pub sig_at: usize,
}

pub fn handshake_layout(d: &[u8]) -> Option<InitLayout> {
    if d.len() < 10 || d[0] != 0xff {
        return None;
    }
    let mut pos = 9;
    let mut parts = vec![];
    loop {
        let tag = *d.get(pos)?;
        if tag == 0 {
            break;
        }
        let len = u16::from_be_bytes([*d.get(pos + 1)?, *d.get(pos + 2)?]) as usize;
        if pos + 3 + len > d.len() {
            return None;
        }
        parts.push((tag, pos, pos + 3, len));
        pos += 3 + len;
    }
    Some(InitLayout { parts, end_tag: pos, siglen_at: pos + 1, sig_at: pos + 2 })
}

/// Longest-prefix match, bit by bit (prefix lengths up to 255)
pub fn range_matches(base: &[u8], prefix_len: u8, addr: &[u8]) -> bool {
    if base.len() != addr.len() {
        return false;
    }
    let bits = base.len() * 8;
    let mut common = 0usize;
    for i in 0..bits {
        let a = (addr[i / 8] >> (7 - i % 8)) & 1;
        let b = (base[i / 8] >> (7 - i % 8)) & 1;
        if a != b {
            break;
        }
        common += 1;
    }
    // an over-long prefix can only be satisfied by... nothing, unless all bits are equal and the
    // implementation counts bits of the address only: the statement says "most specific claim containing the
    // address"; a claim with prefix_len > bits contains no address
    common >= prefix_len as usize
}


/// A sealed datagram as an outsider can fabricate it when it can guess a key: envelope (key id, 7 counter
/// bytes), ciphertext and tag for message type + payload under `key_byte` repeated, for the given cipher
/// (0 aes128, 1 aes256, 2 chacha20), key id and nonce half.
pub fn forge_sealed(cipher: usize, key_byte: u8, key_id: u8, half: u8, counter: u64, msg_type: u8, payload: &[u8]) -> Vec<u8> {
    use ring::aead::{Aad, LessSafeKey, Nonce, UnboundKey, AES_128_GCM, AES_256_GCM, CHACHA20_POLY1305};
    let algo = [&AES_128_GCM, &AES_256_GCM, &CHACHA20_POLY1305][cipher % 3];
    let key = LessSafeKey::new(UnboundKey::new(algo, &vec![key_byte; algo.key_len()]).unwrap());
    let mut nonce = [0u8; 12];
    nonce[0] = half;
    nonce[5..12].copy_from_slice(&counter.to_be_bytes()[1..8]);
    let mut data = vec![msg_type];
    data.extend_from_slice(payload);
    let tag = key.seal_in_place_separate_tag(Nonce::assume_unique_for_key(nonce), Aad::empty(), &mut data).unwrap();
    let mut out = vec![key_id];
    out.extend_from_slice(&nonce[5..12]);
    out.extend_from_slice(&data);
    out.extend_from_slice(tag.as_ref());
    out
}
