//! C18 - generated and password-derived keys are always usable and deterministic
use super::{
    chooser::Chooser,
    io,
    mesh::{self, finish, panic_violation},
    rng::Rng,
    runner::{RunCtx, RunOut, Scenario, Tier, Violation},
    world::{KeyMat, Step, World},
};
use crate::crypto::Crypto;

pub struct C18;

fn guard(w: &World, st: &Step) -> Result<(), Violation> {
    match panic_violation(w, st, "C18") {
        Some(mut v) => {
            if matches!(st.kind, super::world::StepKind::Boot { .. }) {
                v.oracle = "keys-usable";
                v.signature = "node-cannot-start-with-generated-keys".to_string();
            }
            Err(v)
        }
        None => Ok(()),
    }
}

pub const PASSWORDS: [&str; 8] = ["", "test", " ", "p\u{e4}ssw\u{f6}rd-\u{1f511}", "correct horse battery staple", "a", "0", "\u{0}null"];

/// key generation as `vpncloud genkey` does it, with a chosen seed for random keys
fn genkey(w: &mut World, l: &mut Vec<String>, shape: u32, pw: Option<String>, rng: &mut Rng) -> Result<KeyMat, Violation> {
    if pw.is_none() {
        // seeds with 0..4 leading zero bytes; optionally searched so that the public key starts with a zero byte
        let zeros = (shape % 5) as usize;
        let want_pub_zero = shape >= 5;
        let mut tries = 0;
        loop {
            tries += 1;
            let mut seed = rng.bytes(32);
            for b in seed.iter_mut().take(zeros) {
                *b = 0;
            }
            if zeros < 32 && seed[zeros] == 0 {
                seed[zeros] = 1;
            }
            w.hooks.borrow_mut().forced.push(("common.generate_keypair", seed.clone()));
            let r = io::guarded(|| Crypto::generate_keypair(None));
            let (private, public) = match r {
                Ok(x) => x,
                Err(p) => return Err(Violation::new("keys-usable", "key-generation-panics", format!("generate_keypair panicked for seed {:02x?}: {}", seed, p))),
            };
            // what the seed really is, independent of the text codec
            let kp = ring::signature::Ed25519KeyPair::from_seed_unchecked(&seed).map_err(|_| Violation::new("setup", "ring-rejects-seed", "ring rejected a 32 byte seed".to_string()))?;
            let mut pb = [0u8; 32];
            pb.copy_from_slice(ring::signature::KeyPair::public_key(&kp).as_ref());
            if want_pub_zero && pb[0] != 0 && tries < 3000 {
                continue;
            }
            if zeros > 0 {
                w.count("c18_seed_with_leading_zero_bytes");
            }
            if pb[0] == 0 {
                w.count("c18_public_key_with_leading_zero_byte");
            }
            l.push(format!("genkey: seed {:02x?}.. -> private {} public {}", &seed[..6], private, public));
            return Ok(KeyMat { private, public, password: None, public_bytes: pb });
        }
    }
    let p = pw.unwrap();
    let r1 = io::guarded(|| Crypto::generate_keypair(Some(&p)));
    let r2 = io::guarded(|| Crypto::generate_keypair(Some(&p)));
    match (r1, r2) {
        (Ok(a), Ok(b)) => {
            w.count("c18_password_keys_generated");
            if a != b {
                return Err(Violation::new("deterministic", "password-key-differs-between-runs", format!("generate_keypair(Some({:?})) returned {:?} and then {:?}", p, a, b)));
            }
            let mut pb = [0u8; 32];
            let raw = crate::util::from_base62(&a.1).unwrap_or_default();
            if raw.len() <= 32 {
                pb[32 - raw.len()..].copy_from_slice(&raw);
            }
            Ok(KeyMat { private: a.0, public: a.1, password: Some(p), public_bytes: pb })
        }
        (Err(p2), _) | (_, Err(p2)) => Err(Violation::new("keys-usable", "key-generation-panics", format!("generate_keypair panicked for password {:?}: {}", p, p2))),
    }
}

fn scenario(w: &mut World, ctx: &RunCtx, states: &mut Vec<u64>) -> Result<(), Violation> {
    let mut rng = Rng::new(w.ch.seed32("seed_material") as u64 ^ 0xc18);
    let mut log = vec![];
    let nkeys = 1 + w.ch.choose("keys", 3) as usize;
    for k in 0..nkeys {
        let pw = if w.ch.chance("password", 400) {
            let base = PASSWORDS[w.ch.choose("password_pick", PASSWORDS.len() as u32) as usize].to_string();
            Some(if w.ch.chance("long_password", 100) { base.repeat(200).chars().take(1024).collect::<String>() + &k.to_string() } else { base })
        } else {
            None
        };
        // the first runs of a batch take the seed shapes in order
        let shape = if ctx.index < 40 && k == 0 { (ctx.index % 10) as u32 } else { w.ch.weighted("seed_shape", &[8, 2, 2, 1, 1, 3, 1, 1, 1, 1]) as u32 };
        let km = genkey(w, &mut log, shape, pw, &mut rng)?;
        // a private key yields its matching public key
        let pk = io::guarded(|| Crypto::public_key_from_private_key(&km.private));
        w.count("c18_public_from_private_checked");
        match pk {
            Ok(Ok(p)) => {
                if p != km.public {
                    return Err(Violation::new("keys-usable", "public-from-private-differs", format!("public_key_from_private_key({}) = {} but key generation printed {}", km.private, p, km.public)));
                }
            }
            Ok(Err(e)) => {
                return Err(Violation::new("keys-usable", "generated-private-key-rejected", format!("the private key {} printed by key generation is rejected: {}", km.private, e)));
            }
            Err(p) => return Err(Violation::new("keys-usable", "public-from-private-panics", p)),
        }
        w.keys.push(km);
    }
    for line in log {
        w.note(|| line);
    }
    // nodes configured from the printed text
    let n = 2 + w.ch.choose("nodes", 3) as usize;
    let fam = w.ch.choose("addr_family", 2) as u8;
    for i in 0..n {
        let mut c = mesh::tun_node(i);
        c.key = w.ch.choose("node_key", nkeys as u32) as usize;
        // password-derived keys: configure by password in one instance and by printed key text in another
        c.use_password = w.ch.chance("configure_by_password", 500);
        c.give_public_key = w.ch.chance("give_public_key", 500);
        // a password left over next to an explicit private key must not change the identity
        if w.ch.chance("leftover_password", 150) {
            c.extra_password = Some("some-other-password".to_string());
            w.count("c18_private_key_with_leftover_password");
        }
        // a public-key entry of another key pair left over next to a password (a configuration that went from a key
        // pair to the shared password) changes neither the identity nor whom the node trusts by default
        if c.use_password && w.keys[c.key].password.is_some() && w.ch.chance("leftover_public_key", 200) {
            c.stale_public_key = Some(w.ch.choose("leftover_public_key_of", nkeys as u32) as usize);
            w.count("c18_password_with_leftover_public_key");
        }
        let mask = w.ch.choose("trusted_mask", 1 << nkeys);
        c.trusted = (0..nkeys).filter(|k| mask & (1 << k) != 0).collect();
        c.tick_phase_ms = w.ch.choose("tick_phase", 1000) as u64;
        for j in 0..i {
            c.peers.push(mesh::node_text(j, fam));
        }
        w.add_node(c, fam);
    }
    for i in 0..n {
        let st = w.start_node(i);
        guard(w, &st)?;
        w.count("c18_nodes_started");
        // the node uses exactly the key pair that key generation printed for its configuration
        let want = w.keys[w.nodes[i].cfg.key].public_bytes;
        if w.public_key_in_use(i) != Some(want) {
            return Err(Violation::new(
                "same-keys",
                "configured-key-not-the-key-in-use",
                format!("n{} was configured with the generated key pair #{} ({}{}) but uses public key {:02x?} instead of {:02x?}", i, w.nodes[i].cfg.key, if w.nodes[i].cfg.use_password && w.keys[w.nodes[i].cfg.key].password.is_some() { "by password" } else { "by printed private key" }, if w.nodes[i].cfg.extra_password.is_some() { ", with a leftover password" } else { "" }, w.public_key_in_use(i).map(|k| k[..6].to_vec()), &want[..6]),
            ));
        }
    }
    // trust is about key material: two passwords that are equal give one and the same key
    let trusts = |w: &World, i: usize, j: usize| {
        let kj = w.keys[w.nodes[j].cfg.key].public_bytes;
        let t = &w.nodes[i].cfg.trusted;
        if t.is_empty() {
            w.keys[w.nodes[i].cfg.key].public_bytes == kj
        } else {
            t.iter().any(|k| w.keys[*k].public_bytes == kj)
        }
    };
    let until = 12_000;
    w.run_until(until, |w, st| guard(w, st))?;
    states.push(mesh::abstract_state(w));
    // every mutually trusting pair is connected now, nobody else is
    let mut pairs_ok = Ok(());
    for i in 0..n {
        for j in 0..i {
            let m = trusts(w, i, j) && trusts(w, j, i);
            let c = w.is_connected(i, j) && w.is_connected(j, i);
            w.count("c18_pairs_checked");
            if m {
                w.count("c18_trusting_pairs");
            }
            if m != c && pairs_ok.is_ok() {
                pairs_ok = Err(Violation::new(
                    "same-keys",
                    if m { "nodes-with-matching-keys-do-not-connect" } else { "nodes-without-trust-connected" },
                    format!(
                        "n{} (key {}{}, trusts {:?}) and n{} (key {}{}, trusts {:?}): trust relation says {}, connected: {}{}",
                        i,
                        w.nodes[i].cfg.key,
                        if w.nodes[i].cfg.use_password && w.keys[w.nodes[i].cfg.key].password.is_some() { " by password" } else { " by printed key" },
                        w.nodes[i].cfg.trusted,
                        j,
                        w.nodes[j].cfg.key,
                        if w.nodes[j].cfg.use_password && w.keys[w.nodes[j].cfg.key].password.is_some() { " by password" } else { " by printed key" },
                        w.nodes[j].cfg.trusted,
                        m,
                        c,
                        mesh::dump_state(w)
                    ),
                ));
            }
        }
    }
    pairs_ok?;
    // a second run of a node (crash + restart) derives the same key pair from the same configuration.
    // (How fast its peers take it back is a matter of time-outs - C05/C15 - and not checked here: a peer
    // whose own handshake still lingers answers the new ping with its old third message for up to two minutes.)
    if w.ch.chance("restart", 400) {
        let who = w.ch.choose("restart_node", n as u32) as usize;
        let before = w.public_key_in_use(who);
        w.crash_node(who);
        let st = w.start_node(who);
        guard(w, &st)?;
        w.count("c18_restarts");
        let after = w.public_key_in_use(who);
        if before != after || after != Some(w.keys[w.nodes[who].cfg.key].public_bytes) {
            return Err(Violation::new("deterministic", "key-differs-after-restart", format!("n{} uses public key {:02x?} after a restart, {:02x?} before, key generation printed {:02x?}", who, after, before, w.keys[w.nodes[who].cfg.key].public_bytes)));
        }
    }
    Ok(())
}

impl Scenario for C18 {
    fn id(&self) -> &'static str {
        "C18"
    }

    fn run(&self, seed: u64, ch: Chooser, ctx: &RunCtx) -> RunOut {
        let mut w = mesh::new_world(seed, ch, ctx);
        let mut states = vec![];
        let res = scenario(&mut w, ctx, &mut states);
        let nontrivial = w.counters.get("c18_pairs_checked").copied().unwrap_or(0) > 0;
        finish(w, res, nontrivial, states)
    }

    fn budget(&self, tier: Tier) -> (u64, u64) {
        match tier {
            Tier::Quick => (4000, 120),
            Tier::Thorough => (200_000, 1500),
        }
    }

    fn rule(&self) -> &'static str {
        "1-3 key pairs per run produced by the real key generation: random keys from seeds with 0-4 leading zero bytes (optionally searched until the public key starts with a zero byte too; the first 40 runs take the shapes in order), password keys from a dictionary incl. empty, blank, unicode, NUL and 1 KiB passwords, each derived twice; 2-5 real nodes configured from the printed text (private key with or without public key; password nodes either by password or by the printed key - so the same password is used in two forms), trusted sets any subset of the printed public keys, full dial configuration. Oracles: key generation and public_key_from_private_key agree and never fail on generated text; every node starts; after 12 s on a reliable network exactly the mutually trusting pairs are connected; a crashed and restarted node uses the same public key as before and as key generation printed. Non-trivial: at least one pair was checked."
    }

    fn expected_probes(&self) -> Vec<&'static str> {
        vec!["c18_seed_with_leading_zero_bytes", "c18_public_key_with_leading_zero_byte", "c18_password_keys_generated", "c18_trusting_pairs", "c18_restarts", "c18_private_key_with_leftover_password"]
    }
}
