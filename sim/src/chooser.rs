//! One integer decides everything: every decision of a run goes through the Chooser.
//! Seed mode draws from xoshiro256** and records (label, value); replay mode returns recorded values
//! (clamped to the requested range) and 0 once the trace is exhausted. 0 is always the benign choice.
use super::rng::Rng;

pub struct Chooser {
    rng: Rng,
    replay: Option<Vec<u32>>,
    pos: usize,
    pub trace: Vec<(&'static str, u32)>,
    /// number of choices answered beyond the end of a replayed trace
    pub overrun: usize,
    /// in seed mode, after `limit` draws everything is 0 (used to bound run length deterministically)
    pub seed: u64,
}

impl Chooser {
    pub fn from_seed(seed: u64) -> Self {
        Chooser { rng: Rng::new(seed), replay: None, pos: 0, trace: Vec::new(), overrun: 0, seed }
    }

    pub fn from_trace(seed: u64, values: Vec<u32>) -> Self {
        Chooser { rng: Rng::new(seed), replay: Some(values), pos: 0, trace: Vec::new(), overrun: 0, seed }
    }

    pub fn is_replay(&self) -> bool {
        self.replay.is_some()
    }

    fn draw(&mut self, label: &'static str, n: u32, f: impl FnOnce(&mut Rng) -> u32) -> u32 {
        let v = match &self.replay {
            Some(vals) => {
                if self.pos < vals.len() {
                    let v = vals[self.pos];
                    if n == 0 {
                        0
                    } else {
                        v.min(n - 1)
                    }
                } else {
                    self.overrun += 1;
                    0
                }
            }
            None => f(&mut self.rng),
        };
        self.pos += 1;
        self.trace.push((label, v));
        v
    }

    /// uniform in 0..n
    pub fn choose(&mut self, label: &'static str, n: u32) -> u32 {
        if n <= 1 {
            return 0;
        }
        self.draw(label, n, |r| r.below(n as u64) as u32)
    }

    /// inclusive range lo..=hi, value lo is the benign one
    pub fn range(&mut self, label: &'static str, lo: u32, hi: u32) -> u32 {
        lo + self.choose(label, hi - lo + 1)
    }

    /// true with probability permille/1000; false is the benign outcome
    pub fn chance(&mut self, label: &'static str, permille: u32) -> bool {
        if permille == 0 {
            return false;
        }
        self.draw(label, 2, |r| (r.below(1000) < permille as u64) as u32) != 0
    }

    /// weighted pick; index 0 must be the benign choice
    pub fn weighted(&mut self, label: &'static str, weights: &[u32]) -> usize {
        let total: u64 = weights.iter().map(|w| *w as u64).sum();
        if total == 0 || weights.len() <= 1 {
            return 0;
        }
        self.draw(label, weights.len() as u32, |r| {
            let mut x = r.below(total);
            for (i, w) in weights.iter().enumerate() {
                if x < *w as u64 {
                    return i as u32;
                }
                x -= *w as u64;
            }
            0
        }) as usize
    }

    /// pick an element; the first one is the benign choice
    pub fn pick<'a, T>(&mut self, label: &'static str, items: &'a [T]) -> &'a T {
        &items[self.choose(label, items.len() as u32) as usize]
    }

    /// a 32 bit seed for derived data (bodies, markers); 0 gives the simplest data
    pub fn seed32(&mut self, label: &'static str) -> u32 {
        self.draw(label, u32::MAX, |r| r.next() as u32)
    }

    pub fn values(&self) -> Vec<u32> {
        self.trace.iter().map(|t| t.1).collect()
    }
}
