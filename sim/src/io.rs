//! The seams: clock, socket, device, and the thread-local hook state installed into `crate::verif`.
use std::{
    cell::{Cell, RefCell},
    collections::VecDeque,
    io,
    net::{Ipv4Addr, SocketAddr},
    os::unix::io::{AsRawFd, RawFd},
    rc::Rc,
};

use super::rng::Rng;
use crate::{
    device::{Device, Type},
    error::Error,
    net::Socket,
    port_forwarding::PortForwarding,
    util::{MsgBuffer, Time, TimeSource},
    verif as hooks,
};

// ---------------------------------------------------------------- clock

thread_local! {
    static NOW: Cell<Time> = Cell::new(0);
}

#[derive(Clone, Copy)]
pub struct SimClock;

impl SimClock {
    pub fn set(t: Time) {
        NOW.with(|n| n.set(t))
    }
}

impl TimeSource for SimClock {
    fn now() -> Time {
        NOW.with(|n| n.get())
    }
}

// ---------------------------------------------------------------- socket

#[derive(Clone, Copy, Debug, PartialEq)]
pub enum SendFault {
    WouldBlock,
    NetUnreach,
    Perm,
    Short,
    /// EINTR: the call was interrupted by a signal before anything was sent
    Interrupted,
}

pub struct SimSocket {
    pub addr: SocketAddr,
    pub inbox: VecDeque<(SocketAddr, Vec<u8>)>,
    pub outbox: Vec<(SocketAddr, Vec<u8>)>,
    /// the n-th send (1-based) from now on fails with the given fault
    pub fault_at: Option<(u32, SendFault)>,
    pub sends: u32,
    pub faults_fired: u32,
    pub address_fails: bool,
    /// uplink down: every send fails with ENETUNREACH while set
    pub down: bool,
}

impl SimSocket {
    pub fn new(addr: SocketAddr) -> Self {
        SimSocket { addr, inbox: VecDeque::new(), outbox: Vec::new(), fault_at: None, sends: 0, faults_fired: 0, address_fails: false, down: false }
    }
}

impl AsRawFd for SimSocket {
    fn as_raw_fd(&self) -> RawFd {
        -1
    }
}

impl Socket for SimSocket {
    fn listen(_addr: &str) -> Result<Self, io::Error> {
        Err(io::Error::new(io::ErrorKind::Other, "SimSocket is created by the simulator"))
    }

    fn receive(&mut self, buffer: &mut MsgBuffer) -> Result<SocketAddr, io::Error> {
        match self.inbox.pop_front() {
            Some((addr, data)) => {
                buffer.clear();
                // like recv_from: truncated to the space of the buffer
                let space = buffer.buffer().len();
                let len = data.len().min(space);
                buffer.set_length(len);
                buffer.message_mut().copy_from_slice(&data[..len]);
                Ok(addr)
            }
            None => Err(io::Error::new(io::ErrorKind::WouldBlock, "nothing in queue")),
        }
    }

    fn send(&mut self, data: &[u8], addr: SocketAddr) -> Result<usize, io::Error> {
        self.sends += 1;
        if self.down {
            self.faults_fired += 1;
            return Err(io::Error::from_raw_os_error(libc::ENETUNREACH));
        }
        if let Some((n, fault)) = self.fault_at {
            if n == self.sends {
                self.fault_at = None;
                self.faults_fired += 1;
                return match fault {
                    SendFault::WouldBlock => Err(io::Error::new(io::ErrorKind::WouldBlock, "EAGAIN")),
                    SendFault::NetUnreach => Err(io::Error::from_raw_os_error(libc::ENETUNREACH)),
                    SendFault::Perm => Err(io::Error::from_raw_os_error(libc::EPERM)),
                    SendFault::Short => Ok(data.len() / 2),
                    SendFault::Interrupted => Err(io::Error::from_raw_os_error(libc::EINTR)),
                };
            }
        }
        self.outbox.push((addr, data.to_vec()));
        Ok(data.len())
    }

    fn address(&self) -> Result<SocketAddr, io::Error> {
        if self.address_fails {
            return Err(io::Error::new(io::ErrorKind::Other, "address lookup failed"));
        }
        Ok(self.addr)
    }

    fn create_port_forwarding(&self) -> Option<PortForwarding> {
        None
    }
}

// ---------------------------------------------------------------- device

pub struct SimDevice {
    pub type_: Type,
    pub ip: Option<Ipv4Addr>,
    pub inbox: VecDeque<Vec<u8>>,
    pub outbox: Vec<Vec<u8>>,
    pub write_fail_at: Option<u32>,
    pub writes: u32,
    pub faults_fired: u32,
}

impl SimDevice {
    pub fn new(type_: Type, ip: Option<Ipv4Addr>) -> Self {
        SimDevice { type_, ip, inbox: VecDeque::new(), outbox: Vec::new(), write_fail_at: None, writes: 0, faults_fired: 0 }
    }
}

impl AsRawFd for SimDevice {
    fn as_raw_fd(&self) -> RawFd {
        -1
    }
}

impl Device for SimDevice {
    fn get_type(&self) -> Type {
        self.type_
    }

    fn ifname(&self) -> &str {
        "sim0"
    }

    fn read(&mut self, buffer: &mut MsgBuffer) -> Result<(), Error> {
        match self.inbox.pop_front() {
            Some(data) => {
                buffer.clear();
                let space = buffer.buffer().len();
                let len = data.len().min(space);
                buffer.set_length(len);
                buffer.message_mut().copy_from_slice(&data[..len]);
                Ok(())
            }
            // never reached: the simulator only raises a device event when a frame is queued
            None => {
                buffer.clear();
                Ok(())
            }
        }
    }

    fn write(&mut self, buffer: &mut MsgBuffer) -> Result<(), Error> {
        self.writes += 1;
        if self.write_fail_at == Some(self.writes) {
            self.write_fail_at = None;
            self.faults_fired += 1;
            return Err(Error::DeviceIo("Write error", io::Error::from_raw_os_error(libc::EIO)));
        }
        self.outbox.push(buffer.message().to_vec());
        Ok(())
    }

    fn get_ip(&self) -> Result<Ipv4Addr, Error> {
        match self.ip {
            Some(ip) => Ok(ip),
            None => Err(Error::DeviceIo(
                "Error getting IP address",
                io::Error::new(io::ErrorKind::AddrNotAvailable, "no address"),
            )),
        }
    }
}

// ---------------------------------------------------------------- hook state

#[derive(Clone, Copy, Debug, PartialEq)]
pub enum NonceShape {
    /// bytes from the stream as they are
    Random,
    /// low 6 bytes sit `distance` seals below a carry boundary of `carry_bytes` low bytes
    NearCarry { carry_bytes: u8, distance: u16 },
}

pub struct HookState {
    pub stream: Rng,
    pub probes: Vec<hooks::Event>,
    pub collect_probes: bool,
    /// prescribed speeds for the node being created: (AES128, AES256, CHACHA20)
    pub speeds: [f32; 3],
    pub nonce_shape: NonceShape,
    /// forced values for the next draws at a site (consumed front to back)
    pub forced: Vec<(&'static str, Vec<u8>)>,
    pub draws: u64,
    pub site_draws: std::collections::BTreeMap<&'static str, u64>,
    /// what the generator handed out at the nonce start site, in order
    pub nonce_fills: Vec<Vec<u8>>,
}

pub type HookHandle = Rc<RefCell<HookState>>;

pub fn install_hooks(seed: u64) -> HookHandle {
    let st = Rc::new(RefCell::new(HookState {
        stream: Rng::new(super::rng::mix(seed, 0x5eed_0002)),
        probes: Vec::new(),
        collect_probes: true,
        speeds: [600.0, 500.0, 400.0],
        nonce_shape: NonceShape::Random,
        forced: Vec::new(),
        draws: 0,
        site_draws: Default::default(),
        nonce_fills: Vec::new(),
    }));
    let s1 = st.clone();
    let s2 = st.clone();
    let s3 = st.clone();
    hooks::install(hooks::Hooks {
        fill: Some(Box::new(move |site, buf| {
            let mut st = s1.borrow_mut();
            st.draws += 1;
            *st.site_draws.entry(site).or_insert(0) += 1;
            if let Some(pos) = st.forced.iter().position(|(s, v)| *s == site && v.len() == buf.len()) {
                let (_, v) = st.forced.remove(pos);
                buf.copy_from_slice(&v);
                if site == "core.nonce_start" {
                    st.nonce_fills.push(buf.to_vec());
                }
                return;
            }
            st.stream.fill(buf);
            if site == "core.nonce_start" {
                if let NonceShape::NearCarry { carry_bytes, distance } = st.nonce_shape {
                    // buf = low 6 bytes of the nonce (big endian counter)
                    let n = buf.len();
                    let cb = (carry_bytes as usize).min(n);
                    for b in &mut buf[n - cb..] {
                        *b = 0xff;
                    }
                    // subtract distance
                    let mut d = distance as u32;
                    let mut i = n;
                    while d > 0 && i > 0 {
                        i -= 1;
                        let cur = buf[i] as u32;
                        let sub = d & 0xff;
                        if cur >= sub {
                            buf[i] = (cur - sub) as u8;
                            d >>= 8;
                        } else {
                            buf[i] = (cur + 256 - sub) as u8;
                            d = (d >> 8) + 1;
                        }
                    }
                }
                let v = buf.to_vec();
                st.nonce_fills.push(v);
            }
        })),
        probe: Some(Box::new(move |ev| {
            let mut st = s2.borrow_mut();
            if st.collect_probes {
                st.probes.push(ev)
            }
        })),
        speed: Some(Box::new(move |algo| {
            let st = s3.borrow();
            Some(match algo {
                "AES128" => st.speeds[0],
                "AES256" => st.speeds[1],
                _ => st.speeds[2],
            })
        })),
    });
    st
}

pub fn uninstall_hooks() {
    hooks::install(hooks::Hooks::default());
}

// ---------------------------------------------------------------- panic capture

thread_local! {
    static LAST_PANIC: RefCell<Option<String>> = RefCell::new(None);
    static QUIET_PANICS: Cell<bool> = Cell::new(false);
}

pub fn init_panic_hook() {
    let default = std::panic::take_hook();
    std::panic::set_hook(Box::new(move |info| {
        let quiet = QUIET_PANICS.with(|q| q.get());
        let msg = if let Some(s) = info.payload().downcast_ref::<&str>() {
            s.to_string()
        } else if let Some(s) = info.payload().downcast_ref::<String>() {
            s.clone()
        } else {
            "panic".to_string()
        };
        let loc = info.location().map(|l| format!("{}:{}", l.file(), l.line())).unwrap_or_default();
        LAST_PANIC.with(|p| *p.borrow_mut() = Some(format!("{} at {}", msg, loc)));
        if !quiet {
            default(info)
        }
    }));
}

pub fn quiet_panics(q: bool) {
    QUIET_PANICS.with(|c| c.set(q))
}

pub fn take_panic() -> Option<String> {
    LAST_PANIC.with(|p| p.borrow_mut().take())
}

/// Runs `f`, converting an unwind into Err(message)
pub fn guarded<T>(f: impl FnOnce() -> T) -> Result<T, String> {
    quiet_panics(true);
    let r = std::panic::catch_unwind(std::panic::AssertUnwindSafe(f));
    quiet_panics(false);
    match r {
        Ok(v) => Ok(v),
        Err(_) => Err(take_panic().unwrap_or_else(|| "panic".to_string())),
    }
}
