//! L1 simulator: two real `PeerCrypto` endpoints (real handshake, crypto core, rotation) on a simulated
//! link. The per-address routing of `GenericCloud::handle_net_message` (pending handshake first, lingering
//! handshake of the established peer second, fresh responder third) is replicated in 25 lines; the node
//! level scenarios exercise the original.
use std::io::{Read, Write};

use super::io::{self, HookHandle};
use crate::{
    crypto::{Config as CryptoConfig, Crypto, MessageResult, Payload, PeerCrypto},
    error::Error,
    util::MsgBuffer,
    verif::Event,
};

#[derive(Debug, PartialEq, Clone)]
pub struct Tagged(pub Vec<u8>);

impl Payload for Tagged {
    fn write_to(&self, buffer: &mut MsgBuffer) {
        buffer.buffer().write_all(&self.0).expect("Buffer too small");
        buffer.set_length(self.0.len())
    }

    fn read_from<R: Read>(mut r: R) -> Result<Self, Error> {
        let mut data = Vec::new();
        r.read_to_end(&mut data).map_err(|_| Error::Parse("Buffer too small"))?;
        Ok(Tagged(data))
    }
}

#[derive(Debug, Clone, PartialEq)]
pub struct Completion {
    pub attempt: u32,
    pub peer_payload: Vec<u8>,
    pub initiator: bool,
    pub algorithm: &'static str,
    pub at_step: u64,
}

pub struct Obj {
    pub pc: PeerCrypto<Tagged>,
    pub attempt: u32,
    pub payload: Vec<u8>,
}

pub struct End {
    pub name: char,
    pub crypto: Crypto,
    pub pending: Option<Obj>,
    pub peer: Option<Obj>,
    pub next_attempt: u32,
    pub completions: Vec<Completion>,
    pub fatal_errors: Vec<String>,
    pub ticks: u64,
}

#[derive(Debug)]
pub enum Handled {
    /// datagrams to send back, completion (if any), message delivered to the application (type, bytes)
    Ok { replies: Vec<Vec<u8>>, completed: Option<Completion>, message: Option<(u8, Vec<u8>)> },
    Err(String),
}

pub struct Pair {
    pub hooks: HookHandle,
    pub a: End,
    pub b: End,
    pub step: u64,
    pub probes: Vec<(char, Event)>,
    /// real code activity: seals, handshakes completed, keys rotated
    pub activity: [u64; 3],
    buf: Box<MsgBuffer>,
}

pub fn make_crypto(node_id: [u8; 16], cfg: &CryptoConfig, speeds: [f32; 3], hooks: &HookHandle) -> Result<Crypto, String> {
    hooks.borrow_mut().speeds = speeds;
    io::guarded(|| Crypto::new(node_id, cfg)).map_err(|p| format!("panic: {}", p))?.map_err(|e| format!("{}", e))
}

pub fn payload_for(name: char, attempt: u32) -> Vec<u8> {
    // unique per attempt, with a tail so that "exactly the payload offered" is a real comparison
    let mut v = vec![name as u8];
    v.extend_from_slice(&attempt.to_be_bytes());
    v.extend_from_slice(b"-node-info-");
    v.extend(std::iter::repeat(name as u8 ^ attempt as u8).take(20 + (attempt as usize % 7)));
    v
}

impl End {
    pub fn new(name: char, crypto: Crypto) -> Self {
        End { name, crypto, pending: None, peer: None, next_attempt: 1, completions: vec![], fatal_errors: vec![], ticks: 0 }
    }

    fn new_obj(&mut self) -> Obj {
        let attempt = self.next_attempt;
        self.next_attempt += 1;
        let payload = payload_for(self.name, attempt);
        Obj { pc: self.crypto.peer_instance(Tagged(payload.clone())), attempt, payload }
    }
}

impl Pair {
    /// `hooks` must be the handle returned by `io::install_hooks` for this run (installed before the
    /// configurations were generated, so that key generation is seeded too)
    pub fn new(hooks: HookHandle, cfg_a: &CryptoConfig, cfg_b: &CryptoConfig, speeds_a: [f32; 3], speeds_b: [f32; 3]) -> Result<Self, String> {
        let mut id_a = [0u8; 16];
        let mut id_b = [0u8; 16];
        crate::verif::fill("cloud.node_id", &mut id_a);
        crate::verif::fill("cloud.node_id", &mut id_b);
        let ca = make_crypto(id_a, cfg_a, speeds_a, &hooks)?;
        let cb = make_crypto(id_b, cfg_b, speeds_b, &hooks)?;
        Ok(Pair { hooks, a: End::new('A', ca), b: End::new('B', cb), step: 0, probes: vec![], activity: [0; 3], buf: Box::new(MsgBuffer::new(100)) })
    }

    pub fn end(&mut self, who: char) -> &mut End {
        if who == 'A' {
            &mut self.a
        } else {
            &mut self.b
        }
    }

    fn drain_probes(&mut self, who: char) {
        let evs: Vec<Event> = self.hooks.borrow_mut().probes.drain(..).collect();
        for e in evs {
            match &e {
                Event::Seal { .. } => self.activity[0] += 1,
                Event::HandshakeDone { .. } => self.activity[1] += 1,
                Event::KeyRotated { .. } => self.activity[2] += 1,
                _ => {}
            }
            self.probes.push((who, e));
        }
    }

    /// like connect_sock: a new attempt unless one is pending or a peer exists (force: also when a peer exists)
    pub fn dial(&mut self, who: char, even_if_peer: bool) -> Option<Vec<u8>> {
        self.step += 1;
        let e = self.end(who);
        if e.pending.is_some() || (e.peer.is_some() && !even_if_peer) {
            return None;
        }
        let mut obj = e.new_obj();
        let mut msg = MsgBuffer::new(100);
        let r = io::guarded(|| obj.pc.initialize(&mut msg));
        let out = match r {
            Ok(Ok(())) => Some(msg.message().to_vec()),
            _ => None,
        };
        self.end(who).pending = Some(obj);
        self.drain_probes(who);
        out
    }

    /// the receive path of a node for datagrams from the partner's address
    pub fn deliver(&mut self, who: char, data: &[u8]) -> Handled {
        self.step += 1;
        let step = self.step;
        let buf = &mut self.buf;
        buf.clear();
        let space = buf.buffer().len();
        let len = data.len().min(space);
        buf.set_length(len);
        buf.message_mut().copy_from_slice(&data[..len]);
        let e = if who == 'A' { &mut self.a } else { &mut self.b };
        let is_init = !data.is_empty() && data[0] == 0xff;
        #[derive(PartialEq)]
        enum Target {
            Pending,
            PeerInit,
            Fresh,
            Peer,
            Nobody,
        }
        let target = if e.pending.is_some() {
            Target::Pending
        } else if is_init {
            if e.peer.as_ref().map(|p| p.pc.has_init()).unwrap_or(false) {
                Target::PeerInit
            } else {
                Target::Fresh
            }
        } else if e.peer.is_some() {
            Target::Peer
        } else {
            Target::Nobody
        };
        if target == Target::Nobody {
            return Handled::Ok { replies: vec![], completed: None, message: None };
        }
        let mut fresh = if target == Target::Fresh { Some(e.new_obj()) } else { None };
        let res = {
            let obj: &mut Obj = match target {
                Target::Pending => e.pending.as_mut().unwrap(),
                Target::PeerInit | Target::Peer => e.peer.as_mut().unwrap(),
                _ => fresh.as_mut().unwrap(),
            };
            io::guarded(|| obj.pc.handle_message(buf))
        };
        let res = match res {
            Ok(r) => r,
            Err(p) => {
                self.drain_probes(who);
                return Handled::Err(format!("panic: {}", p));
            }
        };
        let mut replies = vec![];
        let mut completed = None;
        let mut message = None;
        let out = match res {
            Ok(r) => {
                if target == Target::Fresh {
                    e.pending = fresh.take();
                }
                match r {
                    MessageResult::Message(t) => {
                        message = Some((t, buf.message().to_vec()));
                    }
                    MessageResult::Reply => replies.push(buf.message().to_vec()),
                    MessageResult::None => {}
                    MessageResult::Initialized(p) | MessageResult::InitializedWithReply(p) => {
                        // add_new_peer: the pending object becomes the peer (replacing an older one)
                        if !buf.is_empty() {
                            replies.push(buf.message().to_vec());
                        }
                        let (obj, attempt) = match target {
                            Target::PeerInit => (None, e.peer.as_ref().map(|o| o.attempt).unwrap_or(0)),
                            _ => {
                                let o = e.pending.take();
                                let a = o.as_ref().map(|o| o.attempt).unwrap_or(0);
                                (o, a)
                            }
                        };
                        if let Some(o) = obj {
                            e.peer = Some(o);
                        }
                        let algo = e.peer.as_ref().map(|o| o.pc.algorithm_name()).unwrap_or("?");
                        let c = Completion { attempt, peer_payload: p.0, initiator: false, algorithm: algo, at_step: step };
                        completed = Some(c);
                    }
                }
                None
            }
            Err(err) => {
                let fatal = matches!(err, Error::CryptoInitFatal(_));
                if fatal && target == Target::Pending {
                    // handle_socket_event removes the pending entry on a fatal init error
                    e.pending = None;
                }
                if fatal {
                    e.fatal_errors.push(format!("{}", err));
                }
                Some(format!("{}", err))
            }
        };
        self.drain_probes(who);
        // the initiator flag comes from the HandshakeDone probe of this step
        if let Some(c) = completed.as_mut() {
            for (w2, ev) in self.probes.iter().rev() {
                if *w2 != who {
                    continue;
                }
                if let Event::HandshakeDone { initiator, algorithm } = ev {
                    c.initiator = *initiator;
                    c.algorithm = algorithm;
                    break;
                }
            }
            let c2 = c.clone();
            self.end(who).completions.push(c2);
        }
        match out {
            Some(e) => Handled::Err(e),
            None => Handled::Ok { replies, completed, message },
        }
    }

    /// crypto_housekeep for this end: returns datagrams to send
    pub fn tick(&mut self, who: char) -> Result<Vec<Vec<u8>>, String> {
        self.step += 1;
        let mut out = vec![];
        let mut msg = MsgBuffer::new(100);
        let e = if who == 'A' { &mut self.a } else { &mut self.b };
        e.ticks += 1;
        let mut drop_pending = false;
        let mut drop_peer = false;
        if let Some(o) = e.pending.as_mut() {
            msg.clear();
            match io::guarded(|| o.pc.every_second(&mut msg)) {
                Ok(Ok(MessageResult::Reply)) => out.push(msg.message().to_vec()),
                Ok(Ok(_)) => {}
                Ok(Err(_)) => drop_pending = true,
                Err(p) => return Err(format!("panic: {}", p)),
            }
        }
        if let Some(o) = e.peer.as_mut() {
            msg.clear();
            match io::guarded(|| o.pc.every_second(&mut msg)) {
                Ok(Ok(MessageResult::Reply)) => out.push(msg.message().to_vec()),
                Ok(Ok(_)) => {}
                Ok(Err(_)) => drop_peer = true,
                Err(p) => return Err(format!("panic: {}", p)),
            }
        }
        if drop_pending {
            e.pending = None;
            // a timed out handshake on the address of an established peer takes the peer with it
            e.peer = None;
        }
        if drop_peer {
            e.peer = None;
        }
        self.drain_probes(who);
        Ok(out)
    }

    /// seals an application message with the established peer object
    pub fn seal(&mut self, who: char, type_: u8, payload: &[u8]) -> Option<Vec<u8>> {
        self.step += 1;
        let e = if who == 'A' { &mut self.a } else { &mut self.b };
        let o = e.peer.as_mut()?;
        let mut msg = MsgBuffer::new(100);
        msg.set_length(payload.len());
        msg.message_mut().copy_from_slice(payload);
        let r = io::guarded(|| o.pc.send_message(type_, &mut msg));
        let out = match r {
            Ok(Ok(())) => Some(msg.message().to_vec()),
            _ => None,
        };
        self.drain_probes(who);
        out
    }

    /// Runs a clean handshake: A dials, messages delivered in order. Returns false when it does not complete.
    pub fn establish(&mut self) -> bool {
        let mut flight: Vec<(char, Vec<u8>)> = vec![];
        if let Some(p) = self.dial('A', false) {
            flight.push(('B', p));
        }
        let mut guard = 0;
        while let Some((to, d)) = if flight.is_empty() { None } else { Some(flight.remove(0)) } {
            guard += 1;
            if guard > 20 {
                return false;
            }
            if let Handled::Ok { replies, .. } = self.deliver(to, &d) {
                let back = if to == 'A' { 'B' } else { 'A' };
                for r in replies {
                    if !r.is_empty() {
                        flight.push((back, r));
                    }
                }
            }
        }
        self.a.peer.is_some() && self.b.peer.is_some() && self.a.pending.is_none() && self.b.pending.is_none()
    }
}

impl Drop for Pair {
    fn drop(&mut self) {
        self.a.pending = None;
        self.a.peer = None;
        self.b.pending = None;
        self.b.peer = None;
        io::uninstall_hooks();
    }
}

/// Crypto config with an explicit shared key pair generated through the seeded hook
pub fn shared_key_config(algorithms: &[&str]) -> CryptoConfig {
    loop {
        let (private, public) = Crypto::generate_keypair(None);
        let ok = crate::util::from_base62(&private).map(|v| v.len() == 32).unwrap_or(false) && crate::util::from_base62(&public).map(|v| v.len() == 32).unwrap_or(false);
        if ok {
            return CryptoConfig { password: None, private_key: Some(private), public_key: None, trusted_keys: vec![public], algorithms: algorithms.iter().map(|s| s.to_string()).collect() };
        }
    }
}
