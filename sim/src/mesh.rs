//! Helpers shared by the L2 scenarios: traffic generation, mesh construction, establishment, probes.
use std::net::{Ipv4Addr, SocketAddr};

use super::{
    runner::Violation,
    world::{addr_text, NodeCfg, Step, StepKind, World},
};
use crate::{device::Type, types::Mode};

pub const MARKER_LEN: usize = 24;

/// A run-unique 24 byte marker: "VM", a counter and 18 pseudo-random bytes
pub fn marker(w: &mut World, counter: u32) -> [u8; MARKER_LEN] {
    let mut m = [0u8; MARKER_LEN];
    m[0] = b'V';
    m[1] = b'M';
    m[2..6].copy_from_slice(&counter.to_be_bytes());
    w.aux_rng.fill(&mut m[6..]);
    m
}

pub fn find_marker(data: &[u8]) -> Option<u32> {
    if data.len() < MARKER_LEN {
        return None;
    }
    for i in 0..=data.len() - MARKER_LEN {
        if data[i] == b'V' && data[i + 1] == b'M' {
            return Some(u32::from_be_bytes([data[i + 2], data[i + 3], data[i + 4], data[i + 5]]));
        }
    }
    None
}

pub fn ipv4_packet(src: [u8; 4], dst: [u8; 4], body: &[u8]) -> Vec<u8> {
    let mut p = vec![0u8; 20];
    p[0] = 0x45;
    let total = (20 + body.len()).min(65535) as u16;
    p[2..4].copy_from_slice(&total.to_be_bytes());
    p[8] = 64;
    p[9] = 17;
    p[12..16].copy_from_slice(&src);
    p[16..20].copy_from_slice(&dst);
    p.extend_from_slice(body);
    p
}

pub fn ipv6_packet(src: [u8; 16], dst: [u8; 16], body: &[u8]) -> Vec<u8> {
    let mut p = vec![0u8; 40];
    p[0] = 0x60;
    p[4..6].copy_from_slice(&(body.len().min(65535) as u16).to_be_bytes());
    p[6] = 17;
    p[7] = 64;
    p[8..24].copy_from_slice(&src);
    p[24..40].copy_from_slice(&dst);
    p.extend_from_slice(body);
    p
}

/// Ethernet frame; `tags` are 802.1Q tag control values (outermost first)
pub fn eth_frame(dst: [u8; 6], src: [u8; 6], tags: &[u16], body: &[u8]) -> Vec<u8> {
    let mut f = Vec::with_capacity(14 + 4 * tags.len() + body.len());
    f.extend_from_slice(&dst);
    f.extend_from_slice(&src);
    for t in tags {
        f.extend_from_slice(&[0x81, 0x00]);
        f.extend_from_slice(&t.to_be_bytes());
    }
    f.extend_from_slice(&[0x08, 0x00]);
    f.extend_from_slice(body);
    f
}

/// Tun address used as "the" address of node i in router meshes: 10.(i+1).0.1, claim 10.(i+1).0.0/16
pub fn tun_ip(i: usize) -> [u8; 4] {
    [10, 1 + i as u8, 0, 1]
}

pub fn tun_claim(i: usize) -> String {
    format!("10.{}.0.0/16", 1 + i)
}

pub fn mac(i: usize) -> [u8; 6] {
    [0x02, 0, 0, 0, 0, 1 + i as u8]
}

/// Standard node: shared key 0, router-ish tun with one claim
pub fn tun_node(i: usize) -> NodeCfg {
    NodeCfg { device_type: Type::Tun, mode: Mode::Normal, claims: vec![tun_claim(i)], auto_claim: false, tick_phase_ms: (i as u64 * 137) % 1000, ..Default::default() }
}

pub fn tap_node(i: usize) -> NodeCfg {
    NodeCfg { device_type: Type::Tap, mode: Mode::Normal, claims: vec![], auto_claim: false, tick_phase_ms: (i as u64 * 137) % 1000, ..Default::default() }
}

/// configured text of the address node j will get (usable before the node is added)
pub fn node_text(j: usize, family: u8) -> String {
    addr_text(super::world::node_addr(j, family))
}

pub fn peer_text(w: &World, n: usize) -> String {
    addr_text(w.reach_addr(n))
}

pub fn panic_violation(w: &World, step: &Step, prop: &'static str) -> Option<Violation> {
    step.panic.as_ref().map(|msg| {
        // signature: panic message without numbers + source file (line numbers shift with edits)
        let loc = msg.rsplit(" at ").next().unwrap_or("");
        let file = loc.rsplit('/').next().unwrap_or(loc).split(':').next().unwrap_or("");
        let head: String = msg.split(" at ").next().unwrap_or("").chars().filter(|c| !c.is_ascii_digit()).take(60).collect();
        let what = match step.kind {
            StepKind::Deliver { .. } => "datagram",
            StepKind::Tick { .. } => "tick",
            StepKind::Frame { .. } => "frame",
            StepKind::Boot { .. } => "start",
            _ => "step",
        };
        let _ = w;
        Violation::new("no-panic", format!("panic-{}-{}-{}", what, file, head.trim().replace(' ', "_")), format!("{}: node n{} panicked handling a {}: {}", prop, step.node.unwrap_or(99), what, msg))
    })
}

/// Runs the world until all given ordered pairs are connected (a has b as peer) or the deadline passes.
pub fn run_until_connected<E>(w: &mut World, pairs: &[(usize, usize)], deadline_ms: u64, mut f: impl FnMut(&mut World, &Step) -> Result<(), E>) -> Result<bool, E> {
    loop {
        if pairs.iter().all(|(a, b)| w.is_connected(*a, *b)) {
            return Ok(true);
        }
        // advance in slices of 200 ms
        let until = (w.now_ms + 200).min(deadline_ms);
        while let Some(step) = w.step(until) {
            f(w, &step)?;
        }
        if w.now_ms >= deadline_ms {
            return Ok(pairs.iter().all(|(a, b)| w.is_connected(*a, *b)));
        }
    }
}

pub fn all_pairs(n: usize) -> Vec<(usize, usize)> {
    let mut v = vec![];
    for a in 0..n {
        for b in 0..n {
            if a != b {
                v.push((a, b));
            }
        }
    }
    v
}

pub fn abstract_state(w: &World) -> u64 {
    let mut h = 0u64;
    for n in 0..w.nodes.len() {
        match w.snapshot(n) {
            Some(s) => {
                h = super::rng::mix(h, s.peers.len() as u64);
                for p in &s.peers {
                    let who = w.node_by_id(&p.node_id).map(|x| x.0 as u64).unwrap_or(99);
                    h = super::rng::mix(h, who << 8 | p.init_stage.unwrap_or(0) as u64 | (p.current_key.unwrap_or(9) as u64) << 16);
                }
                for (a, st) in &s.pending {
                    let who = w.node_by_addr(*a).map(|x| x as u64).unwrap_or(99);
                    h = super::rng::mix(h, 0x1000 | who << 4 | st.unwrap_or(0) as u64);
                }
                h = super::rng::mix(h, (s.table.claims.len() as u64) << 8 | s.table.cache.len() as u64);
            }
            None => h = super::rng::mix(h, 0xdead),
        }
    }
    h
}

/// An address nobody listens on (TEST-NET-1, IPv4-mapped as the dual-stack socket reports it).
/// IPv4 because main.rs cannot take "[v6]:port" as a peer (it appends the default port).
pub fn unknown_addr(k: u16) -> SocketAddr {
    crate::net::mapped_addr(SocketAddr::new(std::net::IpAddr::V4(Ipv4Addr::new(192, 0, 2, k as u8)), 4000 + k))
}

pub fn ipv4_of(i: usize) -> Ipv4Addr {
    let a = tun_ip(i);
    Ipv4Addr::new(a[0], a[1], a[2], a[3])
}

/// Closes a run: moves the recorded data out of the world
/// Creates the world of a run (rendering and step cap from the run context)
pub fn new_world(seed: u64, ch: super::chooser::Chooser, ctx: &super::runner::RunCtx) -> World {
    let mut w = World::new(seed, ch);
    if ctx.render {
        w.render = Some(vec![]);
    }
    if let Some(cap) = ctx.step_cap {
        w.max_steps = w.max_steps.min(cap);
    }
    w
}

pub fn finish(mut w: World, res: Result<(), Violation>, nontrivial: bool, states: Vec<u64>) -> super::runner::RunOut {
    let trace = std::mem::take(&mut w.ch.trace);
    let overrun = w.ch.overrun;
    // a run that hit the step cap (handshake repeat storms) was cut short: its liveness oracles saw a
    // frozen clock, so nothing it reports is used; the number of such runs is part of the evidence
    let truncated = w.steps >= w.max_steps;
    if truncated {
        w.count("run_truncated_by_step_cap");
    }
    let res = if truncated { Ok(()) } else { res };
    super::runner::RunOut {
        steps: w.steps,
        violation: res.err(),
        log_hash: w.log_hash,
        sig: w.sig_hash,
        nontrivial,
        sim_ms: w.now_ms,
        counters: std::mem::take(&mut w.counters),
        render: w.render.take(),
        trace,
        states,
        overrun,
    }
}

/// Human readable dump of the connection state of all nodes (for violation messages)
pub fn dump_state(w: &World) -> String {
    let mut out = String::new();
    for n in 0..w.nodes.len() {
        match w.snapshot(n) {
            Some(s) => {
                let now = w.node_now_s(n);
                out.push_str(&format!(
                    " | n{}: peers={:?} pending={:?} reconnect={:?}",
                    n,
                    s.peers.iter().map(|p| (w.node_by_addr(p.addr).map(|x| x as i64).unwrap_or(-1), p.timeout - now, p.init_stage)).collect::<Vec<_>>(),
                    s.pending.iter().map(|(a, st)| (w.node_by_addr(*a).map(|x| x as i64).unwrap_or(-1), *st)).collect::<Vec<_>>(),
                    s.reconnect.iter().map(|r| (r.resolved.iter().map(|a| w.node_by_addr(*a).map(|x| x as i64).unwrap_or(-1)).collect::<Vec<_>>(), r.tries, r.timeout, r.next - now)).collect::<Vec<_>>()
                ));
            }
            None => out.push_str(&format!(" | n{}: down ({:?})", n, w.nodes[n].panicked)),
        }
    }
    out
}
