//! C12 - see fwd.rs (forwarding family)
use super::{
    chooser::Chooser,
    fwd::{self, Focus},
    runner::{RunCtx, RunOut, Scenario, Tier},
};

pub struct C12;

impl Scenario for C12 {
    fn id(&self) -> &'static str {
        "C12"
    }

    fn run(&self, seed: u64, ch: Chooser, ctx: &RunCtx) -> RunOut {
        // the first 14^4 runs (thorough: 14^6) sweep all short operation sequences at table level; of the rest,
        // three in four are random table level histories and one in four is a node level run
        let sweep = super::tbl::sweep_size(ctx.tier);
        if ctx.index < sweep || (ctx.index - sweep) % 4 != 0 {
            return super::tbl::run(Focus::C12, seed, ch, ctx, ctx.index);
        }
        fwd::run(Focus::C12, seed, ch, ctx)
    }

    fn budget(&self, tier: Tier) -> (u64, u64) {
        match tier {
            Tier::Quick => (38416 + 12_000, 120),
            Tier::Thorough => (7_529_536 + 480_000, 1500),
        }
    }

    fn rule(&self) -> &'static str {
        "meshes whose nodes restart on the same address with a different claim set (0-4 claims drawn with repetition from a 10-claim universe: grow, shrink, permute, duplicates), stop gracefully, crash, or lose announcements through one-way partitions; after every step of every node: every next hop in claims and cache is a current peer, the set of claims attributed to a connected peer equals the last announcement processed from it (history of ClaimsSet probes; missing claims are accepted only after the peer timeout), nothing survives a sweep that ran after its timeout, no non-peer is selected as next hop. Non-trivial: claims of a peer were compared with an announcement at least once."
    }

    fn expected_probes(&self) -> Vec<&'static str> {
        vec!["c12_claims_compared", "fwd_restarts", "fwd_graceful_stops", "fwd_crashes", "fwd_claim_withdrawals"]
    }
}
