//! C01 - only holders of a mutually trusted key can become peers
use super::{
    c08::{corrupt_length_field, snap_equal_ignoring_counters},
    c09,
    chooser::Chooser,
    mesh::{self, finish, panic_violation},
    refmodel,
    rng::Rng,
    runner::{RunCtx, RunOut, Scenario, Tier, Violation},
    world::{Origin, Step, StepKind, World},
};

pub struct C01;

fn guard(w: &World, st: &Step) -> Result<(), Violation> {
    match panic_violation(w, st, "C01") {
        Some(v) => Err(v),
        None => Ok(()),
    }
}

fn trusts(w: &World, i: usize, j: usize) -> bool {
    let kj = w.nodes[j].cfg.key;
    let t = &w.nodes[i].cfg.trusted;
    if t.is_empty() {
        w.nodes[i].cfg.key == kj
    } else {
        t.contains(&kj)
    }
}

fn mutual(w: &World, i: usize, j: usize) -> bool {
    trusts(w, i, j) && trusts(w, j, i)
}

/// (a) every peer entry is backed by mutual trust
fn check_peers(w: &mut World, st: &Step) -> Result<(), Violation> {
    let i = match st.node {
        Some(i) => i,
        None => return Ok(()),
    };
    let snap = match w.snapshot(i) {
        Some(s) => s,
        None => return Ok(()),
    };
    for p in &snap.peers {
        match w.node_by_id(&p.node_id) {
            Some((j, _)) => {
                w.count("c01_peer_entries_checked");
                if !mutual(w, i, j) {
                    return Err(Violation::new(
                        "mutual-trust",
                        if trusts(w, i, j) { "peer-without-being-trusted-by-it" } else { "peer-with-untrusted-key" },
                        format!("n{} (key {}, trusts {:?}) lists n{} (key {}, trusts {:?}) as a peer", i, w.nodes[i].cfg.key, w.nodes[i].cfg.trusted, j, w.nodes[j].cfg.key, w.nodes[j].cfg.trusted),
                    ));
                }
            }
            None => {
                return Err(Violation::new("mutual-trust", "peer-with-unknown-identity", format!("n{} lists a peer at {} whose node id belongs to no node", i, p.addr)));
            }
        }
    }
    Ok(())
}

fn scenario(w: &mut World, ctx: &RunCtx, states: &mut Vec<u64>) -> Result<(), Violation> {
    // keys: up to 4 pairs, explicit or password-derived
    let nkeys = 1 + w.ch.choose("keys", 4) as usize;
    for k in 0..nkeys {
        let pw = if w.ch.chance("password_key", 300) { Some(format!("secret-{}-{}", k, w.ch.choose("pw_variant", 3))) } else { None };
        w.add_key(pw);
    }
    let n = 2 + w.ch.choose("nodes", 3) as usize;
    let fam = w.ch.choose("addr_family", 2) as u8;
    for i in 0..n {
        let mut c = mesh::tun_node(i);
        c.key = w.ch.choose("node_key", nkeys as u32) as usize;
        c.use_password = true; // only has an effect for password-derived keys
        c.give_public_key = w.ch.chance("give_public_key", 300);
        // trusted set: any subset (empty = own key only)
        let mask = w.ch.choose("trusted_mask", 1 << nkeys);
        c.trusted = (0..nkeys).filter(|k| mask & (1 << k) != 0).collect();
        c.tick_phase_ms = w.ch.choose("tick_phase", 1000) as u64;
        if w.ch.chance("allow_plain", 150) {
            c.algorithms = vec!["plain".into(), "aes256".into()];
        }
        w.add_node(c, fam);
    }
    // dials
    let mut dialled: Vec<(usize, usize)> = vec![];
    for i in 0..n {
        for j in 0..i {
            match w.ch.choose("orientation", 4) {
                0 => {
                    let t = mesh::peer_text(w, j);
                    w.nodes[i].cfg.peers.push(t);
                    dialled.push((i, j));
                }
                1 => {
                    let t = mesh::peer_text(w, i);
                    w.nodes[j].cfg.peers.push(t);
                    dialled.push((j, i));
                }
                2 => {
                    let t = mesh::peer_text(w, j);
                    w.nodes[i].cfg.peers.push(t);
                    let t = mesh::peer_text(w, i);
                    w.nodes[j].cfg.peers.push(t);
                    dialled.push((i, j));
                    dialled.push((j, i));
                }
                _ => {}
            }
        }
    }
    let any_untrusted_dial = dialled.iter().any(|(a, b)| !mutual(w, *a, *b));
    if any_untrusted_dial {
        w.count("c01_runs_with_untrusted_dial");
    }
    // mild network faults in half of the runs (corruption in flight is one more source of forged datagrams)
    if w.ch.chance("net_faults", 500) {
        w.net.loss_pm = *w.ch.pick("loss_pm", &[0, 50, 200]);
        w.net.dup_pm = *w.ch.pick("dup_pm", &[0, 100]);
        w.net.corrupt_pm = *w.ch.pick("corrupt_pm", &[0, 50, 200]);
        w.net.truncate_pm = *w.ch.pick("truncate_pm", &[0, 50, 200]);
        w.net.jitter_ms = *w.ch.pick("jitter", &[20, 500]);
    }
    let adversary_pm = *w.ch.pick("adversary_pm", &[0u32, 300, 700]);
    let mut body_rng = Rng::new(w.ch.seed32("body_seed") as u64);
    for i in 0..n {
        let delay = if w.ch.chance("late_start", 300) { w.ch.choose("start_delay_ms", 8_000) as u64 } else { 0 };
        w.schedule_action(delay, 1, i as u64);
    }
    let restart_at = if w.ch.chance("restart", 300) { Some(5_000 + w.ch.choose("restart_ms", 60_000) as u64) } else { None };
    if restart_at.is_some() {
        // a node that restarts while its peer's handshake still lingers bounces repeated handshake messages
        // with it at round-trip speed for up to two minutes; a longer round trip keeps such runs affordable
        w.net.base_ms = 150;
    }
    if let Some(t) = restart_at {
        let who = w.ch.choose("restart_node", n as u32) as u64;
        w.schedule_action(t, 2, who);
    }
    let fault_end = 20_000 + w.ch.choose("fault_ms", 100_000) as u64;
    let end = fault_end + 300_000 + 250_000 + 20_000;
    let unknown = mesh::unknown_addr(9);
    loop {
        // ---- (b) the next datagram: forged or genuine?
        let mut forged: Option<(usize, usize, crate::verif::NodeSnapshot, &'static str)> = None;
        if let Some((wire, v)) = w.peek_delivery() {
            let data = w.wire[wire].data.clone();
            if World::is_init_datagram(&data) {
                let eff = w.effective_datagram(v, &data);
                let keys = w.trusted_key_bytes(v);
                let ok = refmodel::verify_handshake(&eff, &keys).is_some();
                if !ok {
                    if let Some(snap) = w.snapshot(v) {
                        let why = match &w.wire[wire].origin {
                            Origin::Genuine | Origin::Duplicate(_) => "signed-with-untrusted-key",
                            Origin::Corrupted(_, _) => "corrupted-in-flight",
                            Origin::Adversary(t) => t,
                        };
                        forged = Some((wire, v, snap, why));
                    }
                } else {
                    w.count("c01_validly_signed_handshake_datagrams");
                }
            }
        }
        let st = match w.step(end) {
            Some(st) => st,
            None => break,
        };
        guard(w, &st)?;
        match st.kind {
            StepKind::Action(1, i) => {
                let s = w.start_node(i as usize);
                guard(w, &s)?;
            }
            StepKind::Action(2, i) => {
                w.crash_node(i as usize);
                let s = w.start_node(i as usize);
                guard(w, &s)?;
                w.count("c01_restarts");
            }
            _ => {}
        }
        if w.now_ms >= fault_end && w.net.enabled {
            w.net.enabled = false;
            w.net.jitter_ms = 20;
        }
        check_peers(w, &st)?;
        // payload is accepted only from a party that proved possession of a mutually trusted key
        if st.writes > 0 {
            if let StepKind::Deliver { wire, .. } = st.kind {
                let v = st.node.unwrap_or(0);
                let ok = match (w.wire[wire].from_node, &w.wire[wire].origin) {
                    (Some(u), Origin::Genuine) | (Some(u), Origin::Duplicate(_)) => mutual(w, v, u),
                    _ => false,
                };
                w.count("c01_device_writes_checked");
                // two ends that both enabled plain authenticate nothing after the handshake
                let claimed = w.node_by_addr(w.wire[wire].src);
                let both_plain = match claimed {
                    Some(u) => w.nodes[u].cfg.algorithms.iter().any(|a| a == "plain") && w.nodes[v].cfg.algorithms.iter().any(|a| a == "plain"),
                    None => false,
                };
                if !ok && !both_plain {
                    return Err(Violation::new("mutual-trust", "payload-accepted-from-unproven-party", format!("n{} wrote payload to its interface for a datagram ({:?}, from n{:?}) whose sender did not prove possession of a mutually trusted key", v, w.wire[wire].origin, w.wire[wire].from_node)));
                }
            }
        }
        if let Some((wire, v, pre, why)) = forged {
            if let StepKind::Deliver { wire: w2, accepted: true, .. } = st.kind {
                if w2 == wire {
                    let stage_class = if pre.peers.iter().any(|p| p.addr == w.wire[wire].src) {
                        if pre.peers.iter().any(|p| p.addr == w.wire[wire].src && p.init_stage.is_some()) { "c01_forged_to_established_lingering" } else { "c01_forged_to_established" }
                    } else {
                        match pre.pending.iter().find(|(a, _)| *a == w.wire[wire].src).map(|(_, s)| *s) {
                            Some(Some(2)) => "c01_forged_to_awaiting_pong",
                            Some(Some(3)) => "c01_forged_to_awaiting_peng",
                            Some(_) => "c01_forged_to_pending_other",
                            None => "c01_forged_to_fresh",
                        }
                    };
                    w.count(stage_class);
                    w.count("c01_forged_datagrams_checked");
                    if let Some(post) = w.snapshot(v) {
                        let hk = pre.next_housekeep != post.next_housekeep;
                        if !hk {
                            if let Some(diff) = snap_equal_ignoring_counters(&pre, &post) {
                                return Err(Violation::new(
                                    "forged-rejected",
                                    format!("state-changed-by-{}", why),
                                    format!("a handshake datagram that carries no valid signature of a key n{} trusts ({}) changed its state: {}", v, why, diff),
                                ));
                            }
                            if !st.sent.is_empty() {
                                return Err(Violation::new("forged-rejected", format!("reply-to-{}", why), format!("n{} sent {} datagram(s) in reply to a handshake datagram without valid trusted signature ({})", v, st.sent.len(), why)));
                            }
                        } else {
                            w.count("c01_forged_check_skipped_housekeeping");
                        }
                    }
                }
            }
        }
        // ---- adversary: reacts to genuine handshake datagrams on the wire
        if adversary_pm > 0 && w.now_ms < fault_end {
            let sent: Vec<usize> = st.sent.iter().copied().filter(|id| World::is_init_datagram(&w.wire[*id].data) && matches!(w.wire[*id].origin, Origin::Genuine)).collect();
            for id in sent {
                if !w.ch.chance("adversary_acts", adversary_pm) {
                    continue;
                }
                let d = w.wire[id].data.clone();
                let (osrc, odst) = (w.wire[id].src, w.wire[id].dst);
                // unsealed payload / routing information from the address of a handshake in progress
                if w.ch.chance("unsealed_from_pending", 200) {
                    let inner = mesh::ipv4_packet(mesh::tun_ip(1), mesh::tun_ip(0), b"VM-unsealed-payload-from-an-outsider");
                    let mut v = vec![0u8];
                    v.extend_from_slice(&inner);
                    let dl = 1 + w.ch.choose("unsealed_delay", 30) as u64;
                    w.inject(odst, osrc, v, dl, "unsealed-payload");
                    w.inject(osrc, odst, vec![0u8; 40], 1, "unsealed-payload");
                    w.count("c01_unsealed_payload_injected");
                }
                let kind = w.ch.weighted("forgery", &[3, 3, 2, 2, 2, 1]);
                let (data, tag): (Vec<u8>, &'static str) = match kind {
                    5 => {
                        // "signed" by nobody: a key hash that matches no key and one of the signatures that verify
                        // under degenerate (small-order) public keys for a quarter of all messages - R the neutral
                        // element or another point of small order, S = 0; the free salt gives as many tries as wanted
                        let mut v = (*d).clone();
                        if let Some(l) = super::refmodel::handshake_layout(&v) {
                            if v.len() >= l.sig_at + 64 {
                                let salt = body_rng.bytes(8);
                                v[1..9].copy_from_slice(&salt);
                                v[l.siglen_at] = 64;
                                for b in &mut v[l.sig_at..l.sig_at + 64] {
                                    *b = 0;
                                }
                                match w.ch.choose("small_order_r", 3) {
                                    0 => v[l.sig_at] = 1,
                                    1 => {}
                                    _ => {
                                        v[l.sig_at] = 0xec;
                                        for b in &mut v[l.sig_at + 1..l.sig_at + 31] {
                                            *b = 0xff;
                                        }
                                        v[l.sig_at + 31] = 0x7f;
                                    }
                                }
                            }
                        }
                        w.count("c01_keyless_signatures_injected");
                        (v, "keyless-signature")
                    }
                    0 => {
                        let sel = w.ch.choose("edit_field", 16);
                        c09::edit(&mut body_rng, &d, sel)
                    }
                    1 => {
                        // single bit flip anywhere
                        let mut v = (*d).clone();
                        let bit = w.ch.choose("flip_bit", (v.len() * 8) as u32) as usize;
                        v[bit / 8] ^= 1 << (bit % 8);
                        (v, "bit-flip")
                    }
                    2 => {
                        let len = w.ch.choose("truncate_at", d.len() as u32) as usize;
                        (d[..len].to_vec(), "truncation")
                    }
                    3 => {
                        let pick = w.ch.choose("len_field", 16);
                        let nv = w.ch.choose("len_value", 8);
                        (corrupt_length_field(&mut body_rng, &d, pick, nv), "length-corruption")
                    }
                    _ => {
                        let len = 1 + w.ch.choose("random_len", 300) as usize;
                        let mut v = body_rng.bytes(len);
                        v[0] = 0xff;
                        if len > 9 && w.ch.chance("copy_key_hash", 500) {
                            v[1..9].copy_from_slice(&d[1..9]);
                        }
                        (v, "random-with-marker")
                    }
                };
                // to the original destination (races with the genuine datagram) or back at the sender
                let (src, dst) = match w.ch.weighted("forgery_route", &[4, 2, 1]) {
                    0 => (osrc, odst),
                    1 => (odst, osrc),
                    _ => (unknown, odst),
                };
                let delay = w.ch.choose("forgery_delay_ms", 60) as u64;
                w.inject(src, dst, data, delay, tag);
                w.count("c01_forgeries_injected");
            }
        }
    }
    states.push(mesh::abstract_state(w));
    // ---- (c) exactly the mutually trusting dialled pairs are connected
    for (a, b) in &dialled {
        if !w.is_up(*a) || !w.is_up(*b) {
            continue;
        }
        w.count("c01_dialled_pairs_checked");
        let m = mutual(w, *a, *b);
        let conn = w.is_connected(*a, *b) && w.is_connected(*b, *a);
        if m && !conn {
            return Err(Violation::new(
                "trusted-connect",
                "mutually-trusting-pair-not-connected",
                format!("n{} dials n{}, each trusts the other's key, the network has been reliable for 570 s, yet they are not connected{}", a, b, mesh::dump_state(w)),
            ));
        }
        if m {
            w.count("c01_mutual_pairs_connected");
        }
    }
    let _ = ctx;
    Ok(())
}

impl Scenario for C01 {
    fn id(&self) -> &'static str {
        "C01"
    }

    fn run(&self, seed: u64, ch: Chooser, ctx: &RunCtx) -> RunOut {
        let mut w = mesh::new_world(seed, ch, ctx);
        let mut states = vec![];
        let res = scenario(&mut w, ctx, &mut states);
        let nontrivial = w.counters.get("c01_forged_datagrams_checked").copied().unwrap_or(0) > 0 || w.counters.get("c01_runs_with_untrusted_dial").copied().unwrap_or(0) > 0;
        finish(w, res, nontrivial, states)
    }

    fn budget(&self, tier: Tier) -> (u64, u64) {
        match tier {
            Tier::Quick => (2000, 150),
            Tier::Thorough => (120_000, 1500),
        }
    }

    fn rule(&self) -> &'static str {
        "2-4 real nodes over 1-4 key pairs (explicit or password-derived), each node's trusted set any subset of the keys (empty = own key), random dial orientation per pair (none / one way / both), staggered starts, optional restart, mild loss / duplication / in-flight bit flips and truncation for 20-120 s, then a reliable phase of 570 s; an adversary that sees every genuine handshake datagram reacts with field edits (stage, node-id hash, ECDH key, cipher list, payload, part and signature lengths, signature bytes), single bit flips, truncations, length corruptions and random bodies behind the handshake marker (optionally with the genuine key hash), sent to the original destination (racing the genuine datagram), back at the sender, or from an unknown address. Oracles: (a) after every step every peer entry is backed by mutual trust of the two nodes' keys; (b) every handshake datagram that, as the receiver parses it (including the stale tail of its receive buffer), carries no valid signature of a key the receiver trusts - forged, corrupted in flight, or genuinely signed with an untrusted key - changes no state (peers, pending handshakes and their stages, lingering stage, table, own addresses, reconnect entries) and causes no reply, whatever stage the receiver is in; (c) at the end every dialled, mutually trusting pair is connected. Non-trivial: a forged datagram was checked or an untrusted dial existed."
    }

    fn expected_probes(&self) -> Vec<&'static str> {
        vec!["c01_unsealed_payload_injected", "c01_device_writes_checked", "c01_forged_to_fresh", "c01_forged_to_awaiting_pong", "c01_forged_to_awaiting_peng", "c01_forged_to_established", "c01_forged_to_established_lingering", "c01_mutual_pairs_connected", "c01_runs_with_untrusted_dial", "c01_restarts", "fault_corrupt", "fault_truncate"]
    }
}
