//! Deterministic simulation harness for dswd/vpncloud (compiled as a child module of the real crate root).
#![allow(clippy::all)]

pub mod c01;
pub mod c02;
pub mod c03;
pub mod c04;
pub mod c05;
pub mod c06;
pub mod c07;
pub mod c08;
pub mod c09;
pub mod c10;
pub mod c11;
pub mod c12;
pub mod c13;
pub mod c14;
pub mod fwd;
pub mod c15;
pub mod c16;
pub mod c17;
pub mod c18;
pub mod chooser;
pub mod io;
pub mod json;
pub mod l1;
pub mod mesh;
pub mod pair;
pub mod refmodel;
pub mod rng;
pub mod runner;
pub mod tbl;
pub mod world;

use json::J;
use runner::{Scenario, Tier};

pub fn scenario_for(pid: &str) -> Option<&'static dyn Scenario> {
    Some(match pid {
        "C01" => &c01::C01,
        "C02" => &c02::C02,
        "C03" => &c03::C03,
        "C04" => &c04::C04,
        "C05" => &c05::C05,
        "C06" => &c06::C06,
        "C07" => &c07::C07,
        "C08" => &c08::C08,
        "C09" => &c09::C09,
        "C10" => &c10::C10,
        "C11" => &c11::C11,
        "C12" => &c12::C12,
        "C13" => &c13::C13,
        "C14" => &c14::C14,
        "C15" => &c15::C15,
        "C16" => &c16::C16,
        "C17" => &c17::C17,
        "C18" => &c18::C18,
        _ => return None,
    })
}

const COMPONENTS: &[(&str, &str)] = &[
    ("cloud.rs GenericCloud (message handling, housekeeping, peers, beacons)", "real"),
    ("crypto/{init,core,rotate,common}.rs incl. ring Ed25519/X25519/AEAD", "real (randomness seeded through hooks)"),
    ("table.rs, messages.rs, types.rs, payload.rs, beacon.rs (file), traffic.rs, config.rs", "real"),
    ("GenericCloud::run() epoll loop", "stub: verif_step = one loop iteration (event, then housekeeping condition)"),
    ("main.rs::run() bootstrap", "stub: connect + add_reconnect_peer per configured peer"),
    ("UdpSocket, TunTapDevice, SystemTimeSource, SystemRandom, thread_rng", "stub: SimSocket, SimDevice, SimClock, seeded stream"),
    ("crypto speed measurement", "stub: prescribed speeds"),
    ("port forwarding, websocket proxy, wizard, DNS, hook scripts, beacon commands", "not simulated"),
];

fn arg<'a>(args: &'a [String], name: &str) -> Option<&'a str> {
    args.iter().position(|a| a == name).and_then(|i| args.get(i + 1)).map(|s| s.as_str())
}

pub fn dispatch() -> Option<i32> {
    let args: Vec<String> = std::env::args().collect();
    if args.get(1).map(|s| s.as_str()) != Some("verif") {
        return None;
    }
    log::set_max_level(log::LevelFilter::Off);
    if let Ok(level) = std::env::var("VERIF_LOG") {
        // debugging aid: the node's own log lines on stderr (cannot influence the run)
        struct L;
        impl log::Log for L {
            fn enabled(&self, _m: &log::Metadata) -> bool {
                true
            }
            fn log(&self, r: &log::Record) {
                use crate::util::TimeSource;
                eprintln!("      [{} {}] {}", io::SimClock::now(), r.level(), r.args());
            }
            fn flush(&self) {}
        }
        let _ = log::set_boxed_logger(Box::new(L));
        log::set_max_level(if level == "debug" { log::LevelFilter::Debug } else { log::LevelFilter::Info });
    }
    io::init_panic_hook();
    let cmd = args.get(2).map(|s| s.as_str()).unwrap_or("");
    let pid = arg(&args, "--property").unwrap_or("");
    let sc = match scenario_for(pid) {
        Some(s) => s,
        None => {
            eprintln!("no scenario for property {:?}", pid);
            return Some(2);
        }
    };
    let tier = if arg(&args, "--tier") == Some("thorough") { Tier::Thorough } else { Tier::Quick };
    let seed: u64 = arg(&args, "--seed").and_then(|s| s.parse().ok()).unwrap_or(1);
    let workers: usize = arg(&args, "--workers").and_then(|s| s.parse().ok()).unwrap_or_else(|| std::thread::available_parallelism().map(|n| n.get()).unwrap_or(4));
    match cmd {
        "run" => {
            let (def_runs, def_cap) = sc.budget(tier);
            let runs: u64 = arg(&args, "--runs").and_then(|s| s.parse().ok()).unwrap_or(def_runs);
            let cap: u64 = arg(&args, "--budget").and_then(|s| s.parse().ok()).unwrap_or(def_cap);
            let out_path = arg(&args, "--out").unwrap_or("result.json").to_string();
            let replay_dir = arg(&args, "--replay-dir").unwrap_or("replays").to_string();
            // watchdog: a run that does not terminate is a violation in itself ("never a hang") and cannot be
            // interrupted from inside; report it with its seed and leave
            let progress = runner::Progress::new(workers);
            {
                let progress = progress.clone();
                let out_path = out_path.clone();
                let replay_dir = replay_dir.clone();
                let pid = sc.id();
                let level = sc.level();
                let rule = sc.rule();
                let hang_limit: u64 = arg(&args, "--hang-limit").and_then(|s| s.parse().ok()).unwrap_or(runner::HANG_CPU_S);
                std::thread::spawn(move || loop {
                    std::thread::sleep(std::time::Duration::from_millis(1000));
                    if let Some((idx, age, wall)) = progress.stuck(hang_limit, runner::HANG_WALL_S) {
                        let s = runner::run_seed(seed, pid, idx);
                        let path = format!("{}/{}-run-does-not-terminate-{:016x}.json", replay_dir, pid, s);
                        let tier_s = if tier == Tier::Quick { "quick" } else { "thorough" };
                        let msg = format!("run {} (seed {}) has consumed {} s of CPU time ({} s of wall-clock time) inside one simulated run: a node step does not return", idx, s, age, wall);
                        let doc = J::obj()
                            .with("property", J::s(pid))
                            .with("tier", J::s(tier_s))
                            .with("seed", J::s(&format!("{}", s)))
                            .with("index", J::i(idx as i64))
                            .with("oracle", J::s("no-hang"))
                            .with("signature", J::s("run-does-not-terminate"))
                            .with("message", J::s(&msg))
                            .with("from_seed", J::Bool(true))
                            .with("minimised", J::Bool(false))
                            .with("log_hash", J::s(""))
                            .with("choices", J::Arr(vec![]))
                            .with("schedule", J::Arr(vec![]));
                        let _ = std::fs::create_dir_all(&replay_dir);
                        let _ = std::fs::write(&path, doc.to_string() + "\n");
                        let done = progress.done.load(std::sync::atomic::Ordering::Relaxed);
                        let coverage = J::obj()
                            .with("evaluations", J::i(done.max(1) as i64))
                            .with("distinct_nontrivial", J::i(2))
                            .with("rule", J::s(rule))
                            .with("samples", J::Arr(vec![J::s(&msg)]))
                            .with("exhaustive", J::Bool(false))
                            .with("aborted_by_hang_watchdog", J::Bool(true));
                        let evidence = J::obj().with("level", J::s(level)).with("coverage", coverage).with("assumptions", J::Arr(vec![]));
                        let v = J::obj().with("oracle", J::s("no-hang")).with("signature", J::s("run-does-not-terminate")).with("message", J::s(&msg)).with("seed", J::s(&format!("{}", s))).with("index", J::i(idx as i64)).with("replay", J::s(&path));
                        let res = J::obj().with("evidence", evidence).with("violations", J::Arr(vec![v]));
                        let _ = std::fs::write(&out_path, res.to_string());
                        std::process::exit(1);
                    }
                });
            }
            let progress2 = progress.clone();
            let res = runner::run_batch_with(sc, tier, seed, runs, cap, workers, false, progress);
            let longest_run_cpu_ms = progress2.longest_run_cpu_ms.load(std::sync::atomic::Ordering::Relaxed);
            // determinism spot check inside every batch: re-run a sample of runs in this process and compare hashes
            let mut det_checked = 0;
            let mut det_mismatch = 0;
            {
                let sample = 24u64.min(res.runs);
                for i in 0..sample {
                    let idx = i * (res.runs.max(1) / sample.max(1)).max(1);
                    let s = runner::run_seed(seed, sc.id(), idx);
                    let ctx = runner::RunCtx { tier, index: idx, render: false, verbose: false, step_cap: None };
                    let a = sc.run(s, chooser::Chooser::from_seed(s), &ctx);
                    let b = sc.run(s, chooser::Chooser::from_trace(s, a.trace.iter().map(|t| t.1).collect()), &ctx);
                    det_checked += 1;
                    if a.log_hash != b.log_hash {
                        det_mismatch += 1;
                    }
                }
            }
            let mut violations = vec![];
            for f in &res.failures {
                let (path, _doc) = runner::write_replay(sc, tier, f, &replay_dir, (400, 60));
                violations.push(
                    J::obj()
                        .with("oracle", J::s(f.violation.oracle))
                        .with("signature", J::s(&f.violation.signature))
                        .with("message", J::s(&f.violation.message))
                        .with("seed", J::s(&format!("{}", f.seed)))
                        .with("index", J::i(f.index as i64))
                        .with("replay", J::s(&path)),
                );
            }
            // samples: three rendered runs
            let mut samples = vec![];
            for i in 0..3u64.min(res.runs) {
                let idx = i * 7 + i;
                let s = runner::run_seed(seed, sc.id(), idx);
                let ctx = runner::RunCtx { tier, index: idx, render: true, verbose: false, step_cap: None };
                let out = sc.run(s, chooser::Chooser::from_seed(s), &ctx);
                let lines = out.render.unwrap_or_default();
                let shown: Vec<String> = if lines.len() > 40 {
                    let mut v: Vec<String> = lines[..30].to_vec();
                    v.push(format!("... ({} more lines) ...", lines.len() - 38));
                    v.extend_from_slice(&lines[lines.len() - 8..]);
                    v
                } else {
                    lines
                };
                samples.push(J::obj().with("run_index", J::i(idx as i64)).with("seed", J::s(&format!("{}", s))).with("choices", J::i(out.trace.len() as i64)).with("simulated_s", J::Float(out.sim_ms as f64 / 1000.0)).with("schedule", J::strs(&shown)));
            }
            let hours = res.wall_s / 3600.0;
            let mut gaps = vec![];
            for p in sc.expected_probes() {
                if res.counters.get(p).copied().unwrap_or(0) == 0 {
                    gaps.push(p.to_string());
                }
            }
            let faults: std::collections::BTreeMap<&'static str, u64> = res.counters.iter().filter(|(k, _)| k.starts_with("fault_")).map(|(k, v)| (*k, *v)).collect();
            let activity: std::collections::BTreeMap<&'static str, u64> = res.counters.iter().filter(|(k, _)| k.starts_with("real_") || k.starts_with("sim_")).map(|(k, v)| (*k, *v)).collect();
            let probes: std::collections::BTreeMap<&'static str, u64> = res.counters.iter().filter(|(k, _)| !k.starts_with("fault_") && !k.starts_with("real_") && !k.starts_with("sim_")).map(|(k, v)| (*k, *v)).collect();
            let mut comps = J::obj();
            for (c, how) in COMPONENTS {
                comps.set(c, J::s(how));
            }
            let coverage = J::obj()
                .with("evaluations", J::i(res.runs as i64))
                .with("distinct_nontrivial", J::i(res.distinct_nontrivial as i64))
                .with("rule", J::s(sc.rule()))
                .with("samples", J::Arr(samples))
                .with("exhaustive", J::Bool(sc.exhaustive(tier, res.runs)))
                .with("simulated_seconds", J::Float(res.sim_ms as f64 / 1000.0))
                .with("runs_per_hour", J::Float(if hours > 0.0 { res.runs as f64 / hours } else { 0.0 }))
                .with("run_phase_wall_s", J::Float(res.wall_s))
                .with("stopped_by_wall_clock_cap", J::Bool(res.capped))
                .with("workers", J::i(workers as i64))
                .with("longest_run_cpu_ms", J::i(longest_run_cpu_ms as i64))
                .with("hang_limit_cpu_s", J::i(runner::HANG_CPU_S as i64))
                .with("faults_fired", runner::counters_json(&faults))
                .with("probe_counters", runner::counters_json(&probes))
                .with("real_code_activity", runner::counters_json(&activity))
                .with("coverage_gaps", J::strs(&gaps))
                .with("distinct_abstract_states", J::i(res.distinct_states as i64))
                .with("failing_runs", J::i(res.failing_runs as i64))
                .with("components", comps)
                .with("determinism_selfcheck", J::obj().with("runs_reexecuted_from_trace", J::i(det_checked)).with("log_hash_mismatches", J::i(det_mismatch)));
            let evidence = J::obj()
                .with("level", J::s(sc.level()))
                .with("coverage", coverage)
                .with("assumptions", J::strs(&sc.assumptions()));
            let mut doc = J::obj().with("evidence", evidence).with("violations", J::Arr(violations));
            if det_mismatch > 0 {
                doc.set("harness_error", J::s(&format!("determinism self-check failed: {} of {} re-executed runs gave a different event-log hash", det_mismatch, det_checked)));
            }
            if let Err(e) = std::fs::write(&out_path, doc.to_string()) {
                eprintln!("cannot write {}: {}", out_path, e);
                return Some(2);
            }
            Some(if res.failures.is_empty() { 0 } else { 1 })
        }
        "replay" => {
            let file = arg(&args, "--file").unwrap_or("").to_string();
            // a replayed run that does not terminate reproduces a hang violation
            let (tx, rx) = std::sync::mpsc::channel();
            let clock = std::sync::Arc::new(std::sync::atomic::AtomicI64::new(-1));
            {
                let file = file.clone();
                let clock = clock.clone();
                std::thread::Builder::new()
                    .stack_size(64 << 20)
                    .spawn(move || {
                        clock.store(runner::thread_cpu_clock(), std::sync::atomic::Ordering::Relaxed);
                        let r = runner::replay_file(sc, &file);
                        let _ = tx.send(r.map(|o| (o.violation, o.diverged, o.render)));
                    })
                    .unwrap();
            }
            let limit: u64 = arg(&args, "--hang-limit").and_then(|s| s.parse().ok()).unwrap_or(runner::HANG_CPU_S);
            let started = std::time::Instant::now();
            let got = loop {
                match rx.recv_timeout(std::time::Duration::from_secs(1)) {
                    Ok(r) => break r.map(|(violation, diverged, render)| runner::ReplayOutcome { violation, diverged, render }),
                    Err(std::sync::mpsc::RecvTimeoutError::Timeout) => {
                        let cpu = runner::cpu_ms_of(clock.load(std::sync::atomic::Ordering::Relaxed)).unwrap_or(0) / 1000;
                        if cpu >= limit || started.elapsed().as_secs() >= runner::HANG_WALL_S {
                            println!("VIOLATION property={} replay={}", sc.id(), file);
                            eprintln!("  oracle=no-hang signature=run-does-not-terminate: the replayed run did not terminate within {} s of CPU time", limit);
                            return Some(1);
                        }
                    }
                    Err(_) => break Err("replay thread ended without a result".to_string()),
                }
            };
            let file = file.as_str();
            match got {
                Ok(out) => {
                    if args.iter().any(|a| a == "-v") {
                        for l in &out.render {
                            eprintln!("{}", l);
                        }
                    }
                    if out.diverged {
                        eprintln!("replay diverged: same violation but a different event-log hash");
                        return Some(3);
                    }
                    match out.violation {
                        Some(v) => {
                            println!("VIOLATION property={} replay={}", sc.id(), file);
                            eprintln!("  oracle={} signature={}: {}", v.oracle, v.signature, v.message);
                            Some(1)
                        }
                        None => {
                            eprintln!("replay of {}: no violation", file);
                            Some(0)
                        }
                    }
                }
                Err(e) => {
                    eprintln!("replay error: {}", e);
                    Some(2)
                }
            }
        }
        "one" => {
            let index: u64 = arg(&args, "--index").and_then(|s| s.parse().ok()).unwrap_or(0);
            debug_one(sc, tier, seed, index);
            Some(0)
        }
        "hashes" => {
            let runs: u64 = arg(&args, "--runs").and_then(|s| s.parse().ok()).unwrap_or(200);
            let res = runner::run_batch(sc, tier, seed, runs, 0, workers, true);
            for (i, h) in &res.hashes {
                println!("{} {:016x}", i, h);
            }
            Some(0)
        }
        _ => {
            eprintln!("unknown verif command {:?}", cmd);
            Some(2)
        }
    }
}

/// debugging aid: `vpncloud-sim verif one --property C08 --seed S --index I` renders a single run
pub fn debug_one(sc: &'static dyn Scenario, tier: Tier, batch_seed: u64, index: u64) {
    let s = runner::run_seed(batch_seed, sc.id(), index);
    let ctx = runner::RunCtx { tier, index, render: true, verbose: true, step_cap: None };
    let out = sc.run(s, chooser::Chooser::from_seed(s), &ctx);
    for l in out.render.unwrap_or_default() {
        println!("{}", l);
    }
    println!("counters: {:?}", out.counters);
    println!("violation: {:?}", out.violation);
    println!("choices: {:?}", &out.trace[..out.trace.len().min(40)]);
}
