//! Minimal JSON value, writer and parser (no dependency beyond std).
use std::collections::BTreeMap;

#[derive(Debug, Clone, PartialEq)]
pub enum J {
    Null,
    Bool(bool),
    Int(i64),
    Float(f64),
    Str(String),
    Arr(Vec<J>),
    Obj(BTreeMap<String, J>),
}

impl J {
    pub fn obj() -> J {
        J::Obj(BTreeMap::new())
    }

    pub fn set(&mut self, k: &str, v: J) -> &mut J {
        if let J::Obj(m) = self {
            m.insert(k.to_string(), v);
        }
        self
    }

    pub fn with(mut self, k: &str, v: J) -> J {
        self.set(k, v);
        self
    }

    pub fn get(&self, k: &str) -> Option<&J> {
        match self {
            J::Obj(m) => m.get(k),
            _ => None,
        }
    }

    pub fn as_str(&self) -> Option<&str> {
        match self {
            J::Str(s) => Some(s),
            _ => None,
        }
    }

    pub fn as_i64(&self) -> Option<i64> {
        match self {
            J::Int(i) => Some(*i),
            J::Float(f) => Some(*f as i64),
            _ => None,
        }
    }

    pub fn as_arr(&self) -> Option<&Vec<J>> {
        match self {
            J::Arr(a) => Some(a),
            _ => None,
        }
    }

    pub fn s(v: &str) -> J {
        J::Str(v.to_string())
    }

    pub fn i(v: impl TryInto<i64>) -> J {
        J::Int(v.try_into().unwrap_or(i64::MAX))
    }

    pub fn strs<T: AsRef<str>>(v: &[T]) -> J {
        J::Arr(v.iter().map(|s| J::s(s.as_ref())).collect())
    }

    pub fn write(&self, out: &mut String) {
        match self {
            J::Null => out.push_str("null"),
            J::Bool(b) => out.push_str(if *b { "true" } else { "false" }),
            J::Int(i) => out.push_str(&i.to_string()),
            J::Float(f) => {
                if f.is_finite() {
                    out.push_str(&format!("{}", f));
                    if f.fract() == 0.0 && !format!("{}", f).contains('e') {
                        out.push_str(".0");
                    }
                } else {
                    out.push_str("null")
                }
            }
            J::Str(s) => {
                out.push('"');
                for c in s.chars() {
                    match c {
                        '"' => out.push_str("\\\""),
                        '\\' => out.push_str("\\\\"),
                        '\n' => out.push_str("\\n"),
                        '\r' => out.push_str("\\r"),
                        '\t' => out.push_str("\\t"),
                        c if (c as u32) < 0x20 => out.push_str(&format!("\\u{:04x}", c as u32)),
                        c => out.push(c),
                    }
                }
                out.push('"');
            }
            J::Arr(a) => {
                out.push('[');
                for (i, v) in a.iter().enumerate() {
                    if i > 0 {
                        out.push(',');
                    }
                    v.write(out);
                }
                out.push(']');
            }
            J::Obj(m) => {
                out.push('{');
                for (i, (k, v)) in m.iter().enumerate() {
                    if i > 0 {
                        out.push(',');
                    }
                    J::Str(k.clone()).write(out);
                    out.push(':');
                    v.write(out);
                }
                out.push('}');
            }
        }
    }

    pub fn to_string(&self) -> String {
        let mut s = String::new();
        self.write(&mut s);
        s
    }

    pub fn parse(text: &str) -> Result<J, String> {
        let b = text.as_bytes();
        let mut p = 0;
        let v = parse_value(b, &mut p)?;
        skip_ws(b, &mut p);
        if p != b.len() {
            return Err(format!("trailing data at {}", p));
        }
        Ok(v)
    }
}

fn skip_ws(b: &[u8], p: &mut usize) {
    while *p < b.len() && (b[*p] == b' ' || b[*p] == b'\n' || b[*p] == b'\r' || b[*p] == b'\t') {
        *p += 1;
    }
}

fn parse_value(b: &[u8], p: &mut usize) -> Result<J, String> {
    skip_ws(b, p);
    if *p >= b.len() {
        return Err("unexpected end".into());
    }
    match b[*p] {
        b'{' => {
            *p += 1;
            let mut m = BTreeMap::new();
            skip_ws(b, p);
            if *p < b.len() && b[*p] == b'}' {
                *p += 1;
                return Ok(J::Obj(m));
            }
            loop {
                skip_ws(b, p);
                let k = match parse_value(b, p)? {
                    J::Str(s) => s,
                    _ => return Err("object key must be string".into()),
                };
                skip_ws(b, p);
                if *p >= b.len() || b[*p] != b':' {
                    return Err(format!("expected : at {}", p));
                }
                *p += 1;
                let v = parse_value(b, p)?;
                m.insert(k, v);
                skip_ws(b, p);
                if *p < b.len() && b[*p] == b',' {
                    *p += 1;
                    continue;
                }
                if *p < b.len() && b[*p] == b'}' {
                    *p += 1;
                    return Ok(J::Obj(m));
                }
                return Err(format!("expected , or }} at {}", p));
            }
        }
        b'[' => {
            *p += 1;
            let mut a = vec![];
            skip_ws(b, p);
            if *p < b.len() && b[*p] == b']' {
                *p += 1;
                return Ok(J::Arr(a));
            }
            loop {
                a.push(parse_value(b, p)?);
                skip_ws(b, p);
                if *p < b.len() && b[*p] == b',' {
                    *p += 1;
                    continue;
                }
                if *p < b.len() && b[*p] == b']' {
                    *p += 1;
                    return Ok(J::Arr(a));
                }
                return Err(format!("expected , or ] at {}", p));
            }
        }
        b'"' => {
            *p += 1;
            let mut s = Vec::new();
            while *p < b.len() {
                let c = b[*p];
                *p += 1;
                match c {
                    b'"' => return String::from_utf8(s).map(J::Str).map_err(|e| e.to_string()),
                    b'\\' => {
                        if *p >= b.len() {
                            break;
                        }
                        let e = b[*p];
                        *p += 1;
                        match e {
                            b'n' => s.push(b'\n'),
                            b'r' => s.push(b'\r'),
                            b't' => s.push(b'\t'),
                            b'b' => s.push(8),
                            b'f' => s.push(12),
                            b'u' => {
                                let hex = std::str::from_utf8(&b[*p..(*p + 4).min(b.len())]).map_err(|e| e.to_string())?;
                                let cp = u32::from_str_radix(hex, 16).map_err(|e| e.to_string())?;
                                *p += 4;
                                let ch = char::from_u32(cp).unwrap_or('?');
                                let mut buf = [0; 4];
                                s.extend_from_slice(ch.encode_utf8(&mut buf).as_bytes());
                            }
                            other => s.push(other),
                        }
                    }
                    c => s.push(c),
                }
            }
            Err("unterminated string".into())
        }
        b't' if b[*p..].starts_with(b"true") => {
            *p += 4;
            Ok(J::Bool(true))
        }
        b'f' if b[*p..].starts_with(b"false") => {
            *p += 5;
            Ok(J::Bool(false))
        }
        b'n' if b[*p..].starts_with(b"null") => {
            *p += 4;
            Ok(J::Null)
        }
        _ => {
            let start = *p;
            while *p < b.len() && (b[*p] == b'-' || b[*p] == b'+' || b[*p] == b'.' || b[*p] == b'e' || b[*p] == b'E' || b[*p].is_ascii_digit()) {
                *p += 1;
            }
            let t = std::str::from_utf8(&b[start..*p]).map_err(|e| e.to_string())?;
            if let Ok(i) = t.parse::<i64>() {
                Ok(J::Int(i))
            } else if let Ok(f) = t.parse::<f64>() {
                Ok(J::Float(f))
            } else {
                Err(format!("bad token at {}", start))
            }
        }
    }
}
