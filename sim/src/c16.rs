//! C16 - wire codecs round-trip, skip unknown parts, and are total (the part that meets the network)
use std::net::{IpAddr, Ipv4Addr, Ipv6Addr, SocketAddr};

use super::{
    chooser::Chooser,
    io,
    mesh::{self, finish, panic_violation},
    pair::Tagged,
    rng::Rng,
    runner::{RunCtx, RunOut, Scenario, Tier, Violation},
    world::{Step, StepKind, World},
};
use crate::{
    crypto::{Config as CryptoConfig, Crypto, MessageResult, PeerCrypto},
    util::MsgBuffer,
    verif::Event,
};

pub struct C16;

fn guard(w: &World, st: &Step) -> Result<(), Violation> {
    match panic_violation(w, st, "C16") {
        Some(v) => Err(v),
        None => Ok(()),
    }
}

// ---------------------------------------------------------------- reference node-info codec (written from the format, not from the code)

#[derive(Clone, Debug, PartialEq)]
pub struct RefInfo {
    pub node_id: [u8; 16],
    pub peers: Vec<(Option<[u8; 16]>, Vec<SocketAddr>)>,
    pub claims: Vec<(Vec<u8>, u8)>,
    pub peer_timeout: Option<u16>,
    pub addrs: Vec<SocketAddr>,
}

fn split_families(a: &[SocketAddr]) -> (Vec<SocketAddr>, Vec<SocketAddr>) {
    (a.iter().filter(|x| x.is_ipv6()).copied().collect(), a.iter().filter(|x| x.is_ipv4()).copied().collect())
}

fn put_addrs(out: &mut Vec<u8>, v6: &[SocketAddr], v4: &[SocketAddr]) {
    for a in v6 {
        if let SocketAddr::V6(x) = a {
            out.extend_from_slice(&x.ip().octets());
            out.extend_from_slice(&x.port().to_be_bytes());
        }
    }
    for a in v4 {
        if let SocketAddr::V4(x) = a {
            out.extend_from_slice(&x.ip().octets());
            out.extend_from_slice(&x.port().to_be_bytes());
        }
    }
}

/// Encodes with unknown parts inserted at the given positions (0 = before the first part ... 5 = before END)
pub fn ref_encode(info: &RefInfo, unknown: &[(usize, u8, Vec<u8>)]) -> Vec<u8> {
    let mut parts: Vec<(u8, Vec<u8>)> = vec![];
    parts.push((4, info.node_id.to_vec()));
    let mut p = vec![];
    for (id, addrs) in &info.peers {
        let (v6, v4) = split_families(addrs);
        let (v6, v4) = (&v6[..v6.len().min(7)], &v4[..v4.len().min(7)]);
        let mut flags = (v6.len() as u8) << 3 | v4.len() as u8;
        if id.is_some() {
            flags |= 0x80;
        }
        p.push(flags);
        if let Some(id) = id {
            p.extend_from_slice(id);
        }
        put_addrs(&mut p, v6, v4);
    }
    parts.push((1, p));
    let mut c = vec![];
    for (base, prefix) in &info.claims {
        c.push(base.len() as u8);
        c.extend_from_slice(base);
        c.push(*prefix);
    }
    parts.push((2, c));
    if let Some(t) = info.peer_timeout {
        parts.push((3, t.to_be_bytes().to_vec()));
    }
    let (v6, v4) = split_families(&info.addrs);
    let (v6, v4) = (&v6[..v6.len().min(7)], &v4[..v4.len().min(7)]);
    let mut a = vec![(v6.len() as u8) << 3 | v4.len() as u8];
    put_addrs(&mut a, v6, v4);
    parts.push((5, a));
    let mut out = vec![];
    for (i, (tag, body)) in parts.iter().enumerate() {
        for (pos, utag, ubody) in unknown {
            if *pos == i {
                out.push(*utag);
                out.extend_from_slice(&(ubody.len() as u16).to_be_bytes());
                out.extend_from_slice(ubody);
            }
        }
        out.push(*tag);
        out.extend_from_slice(&(body.len() as u16).to_be_bytes());
        out.extend_from_slice(body);
    }
    for (pos, utag, ubody) in unknown {
        if *pos >= parts.len() {
            out.push(*utag);
            out.extend_from_slice(&(ubody.len() as u16).to_be_bytes());
            out.extend_from_slice(ubody);
        }
    }
    out.push(0);
    out
}

fn take_addrs(d: &[u8], pos: &mut usize, n6: usize, n4: usize) -> Option<Vec<SocketAddr>> {
    let mut v = vec![];
    for _ in 0..n6 {
        let b = d.get(*pos..*pos + 18)?;
        let mut ip = [0u8; 16];
        ip.copy_from_slice(&b[..16]);
        v.push(SocketAddr::new(IpAddr::V6(Ipv6Addr::from(ip)), u16::from_be_bytes([b[16], b[17]])));
        *pos += 18;
    }
    for _ in 0..n4 {
        let b = d.get(*pos..*pos + 6)?;
        v.push(SocketAddr::new(IpAddr::V4(Ipv4Addr::new(b[0], b[1], b[2], b[3])), u16::from_be_bytes([b[4], b[5]])));
        *pos += 6;
    }
    Some(v)
}

pub fn ref_decode(d: &[u8]) -> Option<RefInfo> {
    let mut info = RefInfo { node_id: [0; 16], peers: vec![], claims: vec![], peer_timeout: None, addrs: vec![] };
    let mut have_id = false;
    let mut pos = 0;
    loop {
        let tag = *d.get(pos)?;
        pos += 1;
        if tag == 0 {
            break;
        }
        let len = u16::from_be_bytes([*d.get(pos)?, *d.get(pos + 1)?]) as usize;
        pos += 2;
        let body = d.get(pos..pos + len)?;
        pos += len;
        match tag {
            4 => {
                info.node_id.copy_from_slice(body.get(..16)?);
                have_id = true;
            }
            1 => {
                let mut p = 0;
                info.peers.clear();
                while p < body.len() {
                    let flags = body[p];
                    p += 1;
                    let id = if flags & 0x80 != 0 {
                        let mut id = [0u8; 16];
                        id.copy_from_slice(body.get(p..p + 16)?);
                        p += 16;
                        Some(id)
                    } else {
                        None
                    };
                    let addrs = take_addrs(body, &mut p, ((flags & 0x38) >> 3) as usize, (flags & 7) as usize)?;
                    info.peers.push((id, addrs));
                }
            }
            2 => {
                let mut p = 0;
                info.claims.clear();
                while p < body.len() {
                    let l = body[p] as usize;
                    p += 1;
                    if l > 16 {
                        return None;
                    }
                    let base = body.get(p..p + l)?.to_vec();
                    p += l;
                    let prefix = *body.get(p)?;
                    p += 1;
                    info.claims.push((base, prefix));
                }
            }
            3 => info.peer_timeout = Some(u16::from_be_bytes([*body.first()?, *body.get(1)?])),
            5 => {
                let flags = *body.first()?;
                let mut p = 1;
                info.addrs = take_addrs(body, &mut p, ((flags & 0x38) >> 3) as usize, (flags & 7) as usize)?;
            }
            _ => {}
        }
    }
    if have_id {
        Some(info)
    } else {
        None
    }
}

/// what the format can carry of an address list: at most seven per family, IPv6 first
fn normalise(a: &[SocketAddr]) -> Vec<SocketAddr> {
    let (v6, v4) = split_families(a);
    let mut v: Vec<SocketAddr> = v6.into_iter().take(7).collect();
    v.extend(v4.into_iter().take(7));
    v
}

// ---------------------------------------------------------------- the alien-version peer

struct Alien {
    addr: SocketAddr,
    node_id: [u8; 16],
    crypto: Crypto,
    pc: Option<PeerCrypto<Tagged>>,
    established: bool,
    claims: Vec<(Vec<u8>, u8)>,
    addrs: Vec<SocketAddr>,
    timeout: u16,
    /// what the real node told us about itself (decoded by the reference decoder)
    heard: Vec<RefInfo>,
    data_received: Vec<Vec<u8>>,
}

fn random_unknown_parts(rng: &mut Rng, ch: &mut Chooser) -> Vec<(usize, u8, Vec<u8>)> {
    let n = ch.choose("unknown_parts", 4) as usize;
    (0..n)
        .map(|_| {
            let pos = ch.choose("unknown_pos", 7) as usize;
            let tag = 6 + ch.choose("unknown_tag", 250) as u8;
            let len = match ch.choose("unknown_len_class", 3) {
                0 => 0,
                1 => 1 + rng.below(20) as usize,
                _ => 100 + rng.below(600) as usize,
            };
            (pos, tag, rng.bytes(len))
        })
        .collect()
}

impl Alien {
    fn info(&self, peers: Vec<(Option<[u8; 16]>, Vec<SocketAddr>)>) -> RefInfo {
        RefInfo { node_id: self.node_id, peers, claims: self.claims.clone(), peer_timeout: Some(self.timeout), addrs: self.addrs.clone() }
    }
}

fn to_ref(n: &crate::messages::NodeInfo) -> RefInfo {
    RefInfo {
        node_id: n.node_id,
        peers: n.peers.iter().map(|p| (p.node_id, p.addrs.iter().copied().collect())).collect(),
        claims: n.claims.iter().map(range_of).collect(),
        peer_timeout: n.peer_timeout,
        addrs: n.addrs.iter().copied().collect(),
    }
}

/// what the format carries of an info: address lists normalised
fn normalise_info(i: &RefInfo) -> RefInfo {
    RefInfo { node_id: i.node_id, peers: i.peers.iter().map(|(id, a)| (*id, normalise(a))).collect(), claims: i.claims.clone(), peer_timeout: i.peer_timeout, addrs: normalise(&i.addrs) }
}

/// The real decoder, given the bytes of a well-formed message (written by the reference encoder, unknown parts
/// included), returns exactly what was encoded.
fn real_decodes(w: &mut World, info: &RefInfo, bytes: &[u8], what: &str) -> Result<(), Violation> {
    w.count("c16_direct_decodes_checked");
    match io::guarded(|| crate::messages::NodeInfo::decode(bytes)) {
        Err(p) => Err(Violation::new("no-crash", "node-info-decoder-panicked", format!("decoding {} panicked: {}", what, p))),
        Ok(Err(e)) => Err(Violation::new("round-trip", "well-formed-node-info-rejected", format!("the decoder rejects {} ({:?}): {:?}; bytes {:02x?}", what, e, info, &bytes[..bytes.len().min(200)]))),
        Ok(Ok(got)) => {
            let got = to_ref(&got);
            let want = normalise_info(info);
            if got != want {
                return Err(Violation::new("round-trip", "node-info-differs-after-round-trip", format!("{}: encoded {:?}, decoded {:?}", what, want, got)));
            }
            Ok(())
        }
    }
}

/// A real node's own announcement, encoded by the real encoder, is read back identically by the real decoder and by
/// the reference decoder (at most 20 peers travel).
fn real_round_trip(w: &mut World, n: usize) -> Result<(), Violation> {
    let info = match w.nodes[n].cloud.as_ref() {
        Some(c) => super::world::with_cloud_ref(c),
        None => return Ok(()),
    };
    let mut buf = MsgBuffer::new(100);
    if let Err(p) = io::guarded(|| info.encode(&mut buf)) {
        return Err(Violation::new("no-crash", "node-info-encoder-panicked", format!("n{}: {}", n, p)));
    }
    let bytes = buf.message().to_vec();
    let mut want = to_ref(&info);
    want.peers.truncate(20);
    let want = normalise_info(&want);
    w.count("c16_real_encoder_round_trips_checked");
    match ref_decode(&bytes) {
        Some(r) if r == want => {}
        other => return Err(Violation::new("round-trip", "real-encoding-differs-from-format", format!("n{} encoded {:?}; the format reads {:?}", n, want, other))),
    }
    real_decodes(w, &want, &bytes, &format!("n{}'s own announcement", n))
}

fn range_of(r: &crate::types::Range) -> (Vec<u8>, u8) {
    (r.base.data[..r.base.len as usize].to_vec(), r.prefix_len)
}

fn scenario(w: &mut World, ctx: &RunCtx, states: &mut Vec<u64>) -> Result<(), Violation> {
    let k = w.add_key(None);
    let max_nodes = if ctx.tier == Tier::Thorough { 24 } else { 6 };
    let n = match w.ch.weighted("nodes", &[3, 3, 2, 1, 1]) {
        0 => 1,
        1 => 2,
        2 => 3,
        3 => 5.min(max_nodes),
        _ => max_nodes,
    };
    let fam = w.ch.choose("addr_family", 2) as u8;
    let plain = w.ch.chance("plain_mesh", 300);
    let mut rng = Rng::new(w.ch.seed32("material") as u64 ^ 0xc16);
    for i in 0..n {
        let mut c = mesh::tun_node(i);
        c.key = k;
        c.tick_phase_ms = w.ch.choose("tick_phase", 1000) as u64;
        if plain {
            c.algorithms = vec!["plain".into()];
        }
        // 0..=9 advertised addresses per family
        let a4 = *w.ch.pick("advertised_v4", &[0u32, 0, 1, 3, 6, 7, 8, 9]);
        let a6 = *w.ch.pick("advertised_v6", &[0u32, 0, 1, 6, 7, 8, 9]);
        for a in 0..a4 {
            c.advertise.push(format!("203.0.113.{}:{}", 1 + (i * 10 + a as usize) % 250, 3210));
        }
        for a in 0..a6 {
            c.advertise.push(format!("[2001:db8::{:x}:{:x}]:3210", i + 1, a + 1));
        }
        // claims of the address lengths the configuration can express, any prefix length
        let nc = w.ch.choose("claims", 4);
        c.claims = (0..nc)
            .map(|_| match w.ch.choose("claim_family", 3) {
                0 => format!("10.{}.{}.0/{}", rng.below(250), rng.below(250), w.ch.choose("prefix4", 256)),
                1 => format!("fd00:{:x}::/{}", rng.below(65536), w.ch.choose("prefix6", 256)),
                _ => format!("02:00:00:00:{:02x}:{:02x}/{}", rng.below(256), rng.below(256), w.ch.choose("prefix_mac", 256)),
            })
            .collect();
        c.peer_timeout = *w.ch.pick("peer_timeout", &[300u32, 120, 65535, 1000]);
        for j in 0..i {
            c.peers.push(mesh::node_text(j, fam));
        }
        w.add_node(c, fam);
    }
    if n >= 20 {
        w.count("c16_mesh_with_20_or_more_nodes");
    }
    // corrupting network: only between nodes of a plain mesh do altered node infos reach the decoder; altered
    // handshake datagrams reach the handshake decoder in every mesh
    let corrupting = w.ch.chance("corrupting_network", 500);
    if corrupting {
        w.net.corrupt_pm = *w.ch.pick("corrupt_pm", &[50, 300]);
        w.net.truncate_pm = *w.ch.pick("truncate_pm", &[50, 300]);
        w.net.dup_pm = 100;
    }
    // ---- the alien peer: same key, real handshake and envelope code, own node-info encoder
    let alien_addr = mesh::unknown_addr(42);
    // the cipher list of a handshake message has a length field of its own: lists longer than today's four entries
    // (the configuration does not remove duplicates; a newer peer may know more methods) must decode all the same
    let long_list = !plain && w.ch.chance("alien_long_cipher_list", 300);
    let alien_algos: Vec<String> = if plain {
        vec!["plain".into()]
    } else if long_list {
        let k = 5 + w.ch.choose("alien_cipher_entries", 8) as usize;
        w.count("c16_alien_cipher_lists_longer_than_four");
        (0..k).map(|_| w.ch.pick("alien_cipher_entry", &["aes128", "aes256", "chacha20"]).to_string()).collect()
    } else {
        vec![]
    };
    let kc = &w.keys[k];
    let acfg = CryptoConfig { password: None, private_key: Some(kc.private.clone()), public_key: None, trusted_keys: vec![kc.public.clone()], algorithms: alien_algos };
    let mut aid = [0u8; 16];
    rng.fill(&mut aid);
    let crypto = match io::guarded(|| Crypto::new(aid, &acfg)) {
        Ok(Ok(c)) => c,
        _ => return Err(Violation::new("setup", "alien-crypto-setup-failed", "could not build the alien peer".to_string())),
    };
    let with_alien = w.ch.chance("with_alien", 700);
    let fuzz_pm = *w.ch.pick("decoder_fuzz_pm", &[0u32, 300, 800]);
    let mut alien = Alien {
        addr: alien_addr,
        node_id: aid,
        crypto,
        pc: None,
        established: false,
        // claims of every address length 0..=16 and any prefix 0..=255
        claims: (0..w.ch.choose("alien_claims", 5))
            .map(|i| {
                let len = if i == 0 { 4 } else { w.ch.choose("alien_claim_len", 17) as usize };
                let mut base = rng.bytes(len);
                if i == 0 {
                    base = vec![198, 18, 99, 0];
                }
                (base, if i == 0 { 24 } else { w.ch.choose("alien_claim_prefix", 256) as u8 })
            })
            .collect(),
        addrs: (0..w.ch.choose("alien_addrs", 10)).map(|i| SocketAddr::new(IpAddr::V4(Ipv4Addr::new(198, 18, 0, 1 + i as u8)), 4000)).chain((0..w.ch.choose("alien_addrs6", 10)).map(|i| SocketAddr::new(IpAddr::V6(Ipv6Addr::new(0x2001, 0xdb8, 9, 0, 0, 0, 0, 1 + i as u16)), 4000))).collect(),
        timeout: *w.ch.pick("alien_timeout", &[300u16, 0, 1, 65535, 120]),
        heard: vec![],
        data_received: vec![],
    };
    if alien.claims.is_empty() {
        alien.claims.push((vec![198, 18, 99, 0], 24));
    }
    for i in 0..n {
        let st = w.start_node(i);
        guard(w, &st)?;
    }
    // actions: 10 = alien dials node 0, 11 = alien tick, 12 = alien announces itself, 13 = probe to the alien's claim
    let mut dialled_at: Option<u64> = None;
    if with_alien {
        let at = 500 + w.ch.choose("alien_dial_ms", 3000) as u64;
        w.schedule_action(at, 10, 0);
        dialled_at = Some(at);
        w.count("c16_runs_with_alien");
    }
    let mut alien_listed = false;
    let mut established_at: Option<u64> = None;
    let end_ms = 60_000 + w.ch.choose("run_ms", 200_000) as u64;
    let mut next_alien_tick = 1_000u64;
    let mut last_alien_info: Option<RefInfo> = None;
    let mut counter = 0u32;
    let mut probes_sent: Vec<(Vec<u8>, u64)> = vec![];
    let node0 = w.nodes[0].addr;
    // reference view of what each real node announces, taken when it is received
    loop {
        if with_alien && w.now_ms >= next_alien_tick {
            next_alien_tick = w.now_ms + 1000;
            w.schedule_action(w.now_ms, 11, 0);
            if alien.established && w.ch.chance("alien_announces", 200) {
                w.schedule_action(w.now_ms, 12, 0);
            }
            if alien.established && alien_listed && w.ch.chance("probe_to_alien", 200) {
                w.schedule_action(w.now_ms, 13, 0);
            }
            if alien.established && !plain && w.ch.chance("alien_odd_rotation_message", 100) {
                w.schedule_action(w.now_ms, 14, 0);
            }
        }
        let st = match w.step(end_ms.min(next_alien_tick.max(w.now_ms + 1))) {
            Some(st) => st,
            None => {
                if w.now_ms >= end_ms {
                    break;
                }
                continue;
            }
        };
        guard(w, &st)?;
        // ---- (a) a node's own announcement as it stands now survives its own codec
        if let (Some(j), StepKind::Tick { .. }) = (st.node, &st.kind) {
            if w.ch.chance("self_round_trip", 100) {
                real_round_trip(w, j)?;
            }
        }
        // ---- (b) what a real node decoded from another real node = what the sender encoded (normalised)
        if let Some(j) = st.node {
            for ev in &st.probes {
                if let Event::ClaimsSet { peer, claims } = ev {
                    if let Some(i) = w.node_by_addr(*peer) {
                        // in a plain mesh nothing is authenticated after (or bound to) the handshake: altered datagrams and
                        // one-byte datagrams that splice onto the stale tail of the receive buffer change state legitimately
                        if i == j || !w.is_up(i) || w.wire_was_tampered_in(&st) || (plain && (corrupting || fuzz_pm > 0)) {
                            continue;
                        }
                        // the sender's node info as it would build it now (its own claims and addresses do not change)
                        let sent = match w.nodes[i].cloud.as_ref() {
                            Some(c) => super::world::with_cloud_ref(c),
                            None => continue,
                        };
                        let want: Vec<(Vec<u8>, u8)> = sent.claims.iter().map(range_of).collect();
                        let got: Vec<(Vec<u8>, u8)> = claims.iter().map(range_of).collect();
                        w.count("c16_node_to_node_round_trips_checked");
                        if want != got {
                            let detail = match st.kind {
                                StepKind::Deliver { wire, .. } => format!("wire {} from node {:?} inc {} src {} origin {:?} cause {:?} len {} first bytes {:02x?} at t={}", wire, w.wire[wire].from_node, w.wire[wire].from_inc, w.wire[wire].src, w.wire[wire].origin, w.wire[wire].cause, w.wire[wire].data.len(), &w.wire[wire].data[..w.wire[wire].data.len().min(12)], w.now_ms),
                                _ => format!("{:?}", st.kind),
                            };
                            return Err(Violation::new("round-trip", "claims-differ-after-round-trip", format!("n{} decoded claims {:?} from n{}, which encoded {:?} [{}]", j, got, i, want, detail)));
                        }
                        if let Some(s) = w.snapshot(j) {
                            if let Some(p) = s.peers.iter().find(|p| p.addr == *peer) {
                                if p.node_id == sent.node_id {
                                    let stable = stable_addrs(w, i);
                                    let held: Vec<SocketAddr> = p.addrs.iter().skip(1).copied().collect();
                                    // the seen address comes first and is not repeated
                                    let mut stable_wo: Vec<SocketAddr> = stable.clone();
                                    stable_wo.retain(|a| a != peer || normalise(&stable).iter().position(|x| x == a).is_none());
                                    let ok = p.addrs.first() == Some(peer) && stable_prefix_ok_skipping(&held, &stable, *peer);
                                    if !ok && !(plain && (corrupting || fuzz_pm > 0)) {
                                        return Err(Violation::new("round-trip", "addresses-differ-after-round-trip", format!("n{} holds addresses {:?} for n{}, whose stable own addresses are {:?} (normalised {:?})", j, p.addrs, i, stable, normalise(&stable))));
                                    }
                                    if Some(p.peer_timeout) != sent.peer_timeout {
                                        return Err(Violation::new("round-trip", "timeout-differs-after-round-trip", format!("n{} holds peer timeout {} for n{}, which announced {:?}", j, p.peer_timeout, i, sent.peer_timeout)));
                                    }
                                    if sent.addrs.iter().filter(|a| a.is_ipv4()).count() > 7 || sent.addrs.iter().filter(|a| a.is_ipv6()).count() > 7 {
                                        w.count("c16_more_than_7_addresses_normalised");
                                    }
                                }
                            }
                        }
                    }
                }
            }
        }
        // ---- totality of the handshake decoder: variants of genuine handshake datagrams from an outside address
        if fuzz_pm > 0 {
            let sent: Vec<usize> = st.sent.iter().copied().filter(|id| World::is_init_datagram(&w.wire[*id].data) && matches!(w.wire[*id].origin, super::world::Origin::Genuine)).collect();
            for id in sent {
                if !w.ch.chance("fuzz_this", fuzz_pm) {
                    continue;
                }
                let d = w.wire[id].data.clone();
                let dst = w.wire[id].dst;
                let lay = super::refmodel::handshake_layout(&d);
                let boundary: [u16; 10] = [0, 1, 0xff, 0x100, 0x7fff, 0x8000, 0xfff7, 0xfff8, 0xfffe, 0xffff];
                let v: Vec<u8> = match w.ch.weighted("fuzz_kind", &[3, 3, 2, 2]) {
                    0 => {
                        let len = w.ch.choose("fuzz_truncate", d.len() as u32) as usize;
                        d[..len].to_vec()
                    }
                    1 => {
                        // single byte substitution at a tag or length position
                        let mut v = (*d).clone();
                        if let Some(l) = &lay {
                            let mut positions: Vec<usize> = vec![];
                            for (_, at, _, _) in &l.parts {
                                positions.extend_from_slice(&[*at, *at + 1, *at + 2]);
                            }
                            positions.push(l.end_tag);
                            positions.push(l.siglen_at);
                            let p = positions[w.ch.choose("fuzz_pos", positions.len() as u32) as usize].min(v.len() - 1);
                            v[p] = *w.ch.pick("fuzz_byte", &[0xffu8, 0x00, 0xfe, 0x80, 0x7f, 0x01, 0x05, 0x04]);
                        }
                        v
                    }
                    2 => {
                        // genuine key hash, then random parts with boundary lengths
                        let mut v = d[..9.min(d.len())].to_vec();
                        let parts = 1 + w.ch.choose("fuzz_parts", 4);
                        for _ in 0..parts {
                            v.push(*w.ch.pick("fuzz_tag", &[1u8, 2, 3, 4, 5, 6, 0x7f, 0xff]));
                            let claimed = *w.ch.pick("fuzz_len", &boundary);
                            v.extend_from_slice(&claimed.to_be_bytes());
                            let actual = match w.ch.choose("fuzz_actual", 3) {
                                0 => 0,
                                1 => (claimed as usize).min(300),
                                _ => rng.below(64) as usize,
                            };
                            v.extend(rng.bytes(actual));
                        }
                        v.push(0);
                        v.push(64);
                        v.extend(rng.bytes(64));
                        v
                    }
                    _ => {
                        let len = 1 + w.ch.choose("fuzz_random_len", 2048) as usize;
                        let mut v = rng.bytes(len);
                        v[0] = 0xff;
                        if len > 9 {
                            v[1..9].copy_from_slice(&d[1..9]);
                        }
                        v
                    }
                };
                let from = if w.ch.chance("fuzz_from_sender", 500) { w.wire[id].src } else { mesh::unknown_addr(77) };
                let delay = 1 + w.ch.choose("fuzz_delay", 40) as u64;
                w.inject(from, dst, v, delay, "decoder-fuzz");
                w.count("c16_handshake_decoder_inputs_injected");
            }
        }
        // ---- the alien
        match st.kind {
            StepKind::Action(10, _) => {
                let payload = ref_encode(&alien.info(vec![]), &random_unknown_parts(&mut rng, &mut w.ch));
                real_decodes(w, &alien.info(vec![]), &payload, "the alien peer's handshake payload")?;
                let mut pc = alien.crypto.peer_instance(Tagged(payload));
                let mut msg = MsgBuffer::new(100);
                if io::guarded(|| pc.initialize(&mut msg)).is_ok() {
                    w.inject(alien.addr, node0, msg.message().to_vec(), 5, "alien");
                }
                alien.pc = Some(pc);
            }
            StepKind::Action(11, _) => {
                if let Some(pc) = alien.pc.as_mut() {
                    let mut msg = MsgBuffer::new(100);
                    if let Ok(Ok(MessageResult::Reply)) = io::guarded(|| pc.every_second(&mut msg)) {
                        w.inject(alien.addr, node0, msg.message().to_vec(), 5, "alien");
                    }
                }
            }
            StepKind::Action(12, _) => {
                // a node info with unknown parts at random positions
                let unknown = random_unknown_parts(&mut rng, &mut w.ch);
                // 0-4 peer entries with 0-9 addresses per family (an entry without addresses is legal), with or without id
                let np = w.ch.choose("alien_peer_entries", 5) as usize;
                let mut plist = vec![];
                for e in 0..np {
                    let n4 = *w.ch.pick("alien_peer_v4", &[1usize, 0, 2, 7, 9]);
                    let n6 = *w.ch.pick("alien_peer_v6", &[0usize, 0, 1, 7, 8]);
                    let mut a: Vec<SocketAddr> = (0..n4).map(|i| SocketAddr::new(IpAddr::V4(Ipv4Addr::new(198, 18, 1 + e as u8, 1 + i as u8)), 1)).collect();
                    a.extend((0..n6).map(|i| SocketAddr::new(IpAddr::V6(Ipv6Addr::new(0x2001, 0xdb8, 8, e as u16, 0, 0, 0, 1 + i as u16)), 1)));
                    let id = if w.ch.chance("alien_peer_without_id", 200) { None } else { Some(rng_id(&mut rng)) };
                    if a.is_empty() {
                        w.count("c16_alien_peer_entries_without_addresses");
                    }
                    plist.push((id, a));
                }
                let info = alien.info(plist);
                let body = ref_encode(&info, &unknown);
                real_decodes(w, &info, &body, "the alien peer's announcement")?;
                if let Some(pc) = alien.pc.as_mut() {
                    let mut msg = MsgBuffer::new(100);
                    msg.set_length(body.len());
                    msg.message_mut().copy_from_slice(&body);
                    if let Ok(Ok(())) = io::guarded(|| pc.send_message(1, &mut msg)) {
                        w.inject(alien.addr, node0, msg.message().to_vec(), 5, "alien");
                        last_alien_info = Some(info);
                        if !unknown.is_empty() {
                            w.count("c16_alien_infos_with_unknown_parts");
                        }
                    }
                }
            }
            StepKind::Action(14, _) => {
                // a rotation message as a newer version might write it: keys of any length 0..=255, possibly cut
                // short. Its message id is 0, which every receiver has already passed, so it is decoded and then
                // ignored (what the node does with a *newer* message carrying a key it cannot use is not the decoder's
                // business and not asked here).
                let mut body = vec![0u8; 8];
                let kl = match w.ch.weighted("rot_key_len", &[2, 2, 2, 1, 1, 1]) {
                    0 => 32,
                    1 => w.ch.choose("rot_key_len_any", 256) as usize,
                    2 => *w.ch.pick("rot_key_len_edge", &[0usize, 1, 31, 33, 64, 96, 97, 128, 255]),
                    3 => 255,
                    4 => 97,
                    _ => 0,
                };
                body.push(kl as u8);
                let have = if w.ch.chance("rot_cut_short", 200) { rng.below(kl as u64 + 1) as usize } else { kl };
                body.extend(rng.bytes(have));
                if have == kl {
                    let cl = *w.ch.pick("rot_confirm_len", &[0usize, 32, 255, 97, 1]);
                    body.push(cl as u8);
                    let chave = if w.ch.chance("rot_confirm_cut", 200) { rng.below(cl as u64 + 1) as usize } else { cl };
                    body.extend(rng.bytes(chave));
                }
                if let Some(core) = alien.pc.as_mut().and_then(|pc| pc.verif_core_mut()) {
                    let mut msg = MsgBuffer::new(100);
                    msg.set_length(body.len() + 1);
                    msg.message_mut()[0] = 0x10;
                    msg.message_mut()[1..].copy_from_slice(&body);
                    if io::guarded(|| core.encrypt(&mut msg)).is_ok() {
                        w.inject(alien.addr, node0, msg.message().to_vec(), 5, "alien");
                        w.count("c16_alien_rotation_messages_with_odd_keys");
                    }
                }
            }
            StepKind::Action(13, _) => {
                counter += 1;
                let m = mesh::marker(w, counter);
                let f = mesh::ipv4_packet(mesh::tun_ip(0), [198, 18, 99, 1 + (counter % 200) as u8], &m);
                probes_sent.push((f.clone(), w.now_ms));
                let now = w.now_ms;
                w.schedule_frame(now + 1, 0, f);
            }
            StepKind::Deliver { wire, to: None, .. } if w.wire[wire].dst == alien.addr && with_alien => {
                let data = w.wire[wire].data.clone();
                let untouched = !w.wire_was_tampered_in(&st);
                if let Some(pc) = alien.pc.as_mut() {
                    let mut buf = MsgBuffer::new(100);
                    buf.set_length(data.len());
                    buf.message_mut().copy_from_slice(&data);
                    match io::guarded(|| pc.handle_message(&mut buf)) {
                        Ok(Ok(r)) => match r {
                            MessageResult::Reply => {
                                w.inject(alien.addr, node0, buf.message().to_vec(), 5, "alien");
                            }
                            MessageResult::Initialized(p) | MessageResult::InitializedWithReply(p) => {
                                alien.established = true;
                                established_at = Some(w.now_ms);
                                w.count("c16_alien_established");
                                if !buf.is_empty() {
                                    w.inject(alien.addr, node0, buf.message().to_vec(), 5, "alien");
                                }
                                // (round trip, real encoder -> reference decoder)
                                if untouched {
                                    check_heard(w, &mut alien, &p.0, 0)?;
                                }
                            }
                            MessageResult::Message(1) => {
                                if untouched {
                                    check_heard(w, &mut alien, buf.message(), 0)?;
                                }
                            }
                            MessageResult::Message(0) => {
                                alien.data_received.push(buf.message().to_vec());
                            }
                            _ => {}
                        },
                        Ok(Err(_)) => {}
                        Err(p) => return Err(Violation::new("setup", "alien-panicked", p)),
                    }
                }
            }
            _ => {}
        }
        // ---- (c) after every step of node 0: the alien stays connected and routable
        if with_alien && alien.established && st.node == Some(0) {
            if let Some(s) = w.snapshot(0) {
                match s.peers.iter().find(|p| p.addr == alien.addr) {
                    None if !alien_listed => {}
                    None => {
                        // a timeout of 0 or 1 s advertised by the alien says nothing about our own timeout; the node
                        // drops the alien only when ITS timeout passes without an announcement
                        let since = w.now_ms;
                        let _ = since;
                        return Err(Violation::new(
                            "forward-compatible",
                            "peer-with-unknown-parts-dropped",
                            format!("n0 no longer lists the alien-version peer (which sends well-formed node infos with unknown parts and keeps its handshake and rotation going) at t={:.1}s{}", w.now_ms as f64 / 1000.0, mesh::dump_state(w)),
                        ));
                    }
                    Some(p) => {
                        alien_listed = true;
                        w.count("c16_alien_connected_checks");
                        // its claims as decoded by the node = as encoded by the alien (after the last announcement was handled)
                        if st.probes.iter().any(|e| matches!(e, Event::ClaimsSet { peer, .. } if *peer == alien.addr)) {
                            let got: Vec<(Vec<u8>, u8)> = st
                                .probes
                                .iter()
                                .filter_map(|e| if let Event::ClaimsSet { peer, claims } = e { if *peer == alien.addr { Some(claims.iter().map(range_of).collect::<Vec<_>>()) } else { None } } else { None })
                                .last()
                                .unwrap_or_default();
                            w.count("c16_alien_announcements_decoded");
                            if got != alien.claims {
                                return Err(Violation::new("round-trip", "alien-claims-differ", format!("n0 decoded claims {:?} from the alien peer, which encoded {:?}", got, alien.claims)));
                            }
                            if p.peer_timeout != alien.timeout {
                                return Err(Violation::new("round-trip", "alien-timeout-differs", format!("n0 holds peer timeout {} for the alien, which encoded {}", p.peer_timeout, alien.timeout)));
                            }
                            let mut want = vec![alien.addr];
                            for a in normalise(&alien.addrs) {
                                if !want.contains(&a) {
                                    want.push(a);
                                }
                            }
                            if p.addrs != want {
                                return Err(Violation::new("round-trip", "alien-addresses-differ", format!("n0 holds addresses {:?} for the alien, which encoded {:?}", p.addrs, want)));
                            }
                        }
                    }
                }
            }
        }
    }
    let _ = last_alien_info;
    // a well-formed newer peer is accepted: on a network that alters nothing, the node that completed the handshake
    // with the alien has decoded its payload and lists it (the alien repeats its last message every second)
    if let (Some(at), None) = (dialled_at, established_at) {
        if with_alien && !corrupting && fuzz_pm == 0 && at + 30_000 < w.now_ms && w.is_up(0) {
            return Err(Violation::new("forward-compatible", "well-formed-handshake-never-completed", format!("the alien-version peer (trusted key, real handshake code, cipher list {:?}) dialled n0 at t={:.1}s on a network that alters nothing and repeated its message every second; no handshake completed until t={:.1}s{}", acfg.algorithms, at as f64 / 1000.0, w.now_ms as f64 / 1000.0, mesh::dump_state(w))));
        }
    }
    if let Some(at) = established_at {
        if with_alien && !corrupting && !alien_listed && at + 30_000 < w.now_ms && w.is_up(0) {
            return Err(Violation::new("forward-compatible", "well-formed-peer-never-accepted", format!("the alien-version peer completed its handshake at t={:.1}s; n0 never listed it until t={:.1}s{}", at as f64 / 1000.0, w.now_ms as f64 / 1000.0, mesh::dump_state(w))));
        }
    }
    states.push(mesh::abstract_state(w));
    // probes to the alien's claim arrived at the alien, byte-identical
    if with_alien && alien.established && !corrupting {
        for (f, at) in &probes_sent {
            if *at + 500 > w.now_ms {
                continue;
            }
            w.count("c16_probes_to_alien_checked");
            if !alien.data_received.iter().any(|d| d == f) {
                return Err(Violation::new("forward-compatible", "alien-peer-not-routed-to", format!("a packet for the alien peer's claim 198.18.99.0/24 sent at t={:.1}s never reached it", *at as f64 / 1000.0)));
            }
        }
    }
    Ok(())
}

/// configured advertise addresses followed by the socket address: the part of a node's own addresses that never changes
fn stable_addrs(w: &World, n: usize) -> Vec<SocketAddr> {
    let mut v: Vec<SocketAddr> = w.nodes[n].cfg.advertise.iter().filter_map(|a| a.parse::<SocketAddr>().ok()).collect();
    v.push(w.nodes[n].addr);
    v
}

/// `got` (IPv6 first, then IPv4, at most seven each) starts, per family, with the stable addresses in order
fn stable_prefix_ok(got: &[SocketAddr], stable: &[SocketAddr]) -> bool {
    let (g6, g4) = split_families(got);
    let (s6, s4) = split_families(stable);
    let mut nf = g6.clone();
    nf.extend(g4.iter().copied());
    if g6.len() > 7 || g4.len() > 7 || nf != got {
        return false;
    }
    let n6 = s6.len().min(7);
    let n4 = s4.len().min(7);
    g6.len() >= n6 && g6[..n6] == s6[..n6] && g4.len() >= n4 && g4[..n4] == s4[..n4]
}

/// like stable_prefix_ok, for a receiver's list from which the seen address was taken out
fn stable_prefix_ok_skipping(got: &[SocketAddr], stable: &[SocketAddr], seen: SocketAddr) -> bool {
    let norm = normalise(stable);
    let want: Vec<SocketAddr> = norm.into_iter().filter(|a| *a != seen).collect();
    let (g6, g4) = split_families(got);
    let (w6, w4) = split_families(&want);
    g6.len() >= w6.len() && g6[..w6.len()] == w6[..] && g4.len() >= w4.len() && g4[..w4.len()] == w4[..] && g6.len() <= 7 && g4.len() <= 7
}

fn rng_id(r: &mut Rng) -> [u8; 16] {
    let mut id = [0u8; 16];
    r.fill(&mut id);
    id
}

/// the alien decoded a node info of real node `from` with the reference decoder: compare with what the node builds
fn check_heard(w: &mut World, alien: &mut Alien, bytes: &[u8], from: usize) -> Result<(), Violation> {
    let dec = match ref_decode(bytes) {
        Some(d) => d,
        None => {
            return Err(Violation::new("round-trip", "node-info-not-decodable-by-reference", format!("the reference decoder cannot read a {} byte node info sent by n{}", bytes.len(), from)));
        }
    };
    w.count("c16_node_infos_decoded_by_reference");
    if let Some(c) = w.nodes[from].cloud.as_ref() {
        let sent = super::world::with_cloud_ref(c);
        let want_claims: Vec<(Vec<u8>, u8)> = sent.claims.iter().map(range_of).collect();
        if dec.claims != want_claims || dec.node_id != sent.node_id || dec.peer_timeout != sent.peer_timeout {
            return Err(Violation::new("round-trip", "encoded-node-info-differs", format!("n{} encodes claims {:?} timeout {:?}; the wire carries claims {:?} timeout {:?}", from, want_claims, sent.peer_timeout, dec.claims, dec.peer_timeout)));
        }
        // own addresses: the configured ones and the socket address are stable, adopted ones come and go
        let stable = stable_addrs(w, from);
        if !stable_prefix_ok(&dec.addrs, &stable) {
            return Err(Violation::new("round-trip", "encoded-addresses-differ", format!("n{} has the stable own addresses {:?}; the wire carries {:?}, the format allows {:?}", from, stable, dec.addrs, normalise(&stable))));
        }
        // peers: every encoded entry is one of the node's peers, normalised; at most 20
        if dec.peers.len() > 20 {
            return Err(Violation::new("round-trip", "more-than-20-peers-encoded", format!("n{} sent {} peers", from, dec.peers.len())));
        }
        if sent.peers.len() > 20 {
            w.count("c16_peer_list_truncated_to_20");
        }
        for (id, addrs) in &dec.peers {
            // the node's view of a peer changes with every announcement it receives; what must hold for every
            // entry is the normal form: at most seven per family, IPv6 before IPv4
            let (v6, v4) = split_families(addrs);
            let mut nf = v6.clone();
            nf.extend(v4.iter().copied());
            if v6.len() > 7 || v4.len() > 7 || nf != *addrs {
                return Err(Violation::new("round-trip", "encoded-peer-entry-not-normalised", format!("n{} announced peer {:?} with addresses {:?}", from, id.map(|i| i[0]), addrs)));
            }
        }
    }
    alien.heard.push(dec);
    Ok(())
}

impl Scenario for C16 {
    fn id(&self) -> &'static str {
        "C16"
    }

    fn run(&self, seed: u64, ch: Chooser, ctx: &RunCtx) -> RunOut {
        let mut w = mesh::new_world(seed, ch, ctx);
        let mut states = vec![];
        let res = scenario(&mut w, ctx, &mut states);
        let nontrivial = w.counters.get("c16_node_to_node_round_trips_checked").copied().unwrap_or(0) + w.counters.get("c16_node_infos_decoded_by_reference").copied().unwrap_or(0) > 0;
        finish(w, res, nontrivial, states)
    }

    fn budget(&self, tier: Tier) -> (u64, u64) {
        match tier {
            Tier::Quick => (8000, 150),
            Tier::Thorough => (300_000, 1500),
        }
    }

    fn rule(&self) -> &'static str {
        "1-6 real nodes (thorough: up to 24, so that the 20 peer limit of an announcement is hit) with 0-9 advertised addresses per family, 0-3 claims of the address lengths the configuration can express (IPv4, IPv6, MAC) with any prefix 0-255, peer timeouts incl. 65535; in 30 % plain meshes (node infos travel unauthenticated); a corrupting network (bit flips, truncation, duplicates) in half of the runs, which feeds altered handshake datagrams to the handshake decoder everywhere and altered node infos to the node-info decoder in plain meshes; an outside sender that presents truncations, single-byte substitutions at tag/length positions, random parts with boundary lengths (0, 1, 0xff, 0x100, 0x7fff, 0x8000, 0xfff7, 0xfff8, 0xfffe, 0xffff) behind a genuine key hash, and random strings up to 2 KiB derived from genuine handshake datagrams; in 70 % of the runs an alien-version peer - an actor with a trusted key built from the real handshake and envelope code, with its OWN node-info encoder/decoder written from the format - that announces claims of every address length 0-16 and prefix 0-255, 0-9 addresses per family, any timeout, and unknown parts (tags 6-255, 0-700 bytes) at every position. Oracles: no unwind in any step; what a real node decoded from a real node's announcement (claims, addresses, timeout) equals the sender's own view normalised to the format (7 addresses per family, IPv6 first); what the reference decoder reads from a real node's announcements equals that node's view (at most 20 peers, each normalised); the node decodes the alien's announcements to exactly what the alien encoded, keeps it connected at every step and routes packets for its claim to it byte-identical. Non-trivial: at least one round trip was checked."
    }

    fn expected_probes(&self) -> Vec<&'static str> {
        vec!["c16_handshake_decoder_inputs_injected", "c16_node_to_node_round_trips_checked", "c16_node_infos_decoded_by_reference", "c16_alien_established", "c16_alien_infos_with_unknown_parts", "c16_alien_announcements_decoded", "c16_probes_to_alien_checked", "c16_more_than_7_addresses_normalised", "fault_corrupt", "fault_truncate"]
    }
}
