//! Table level layer of C11 / C12: one real `ClaimTable<SimClock>` driven directly with announce / withdraw /
//! disconnect / lookup / learn / time steps, checked after every operation against a reference written from the
//! property statements (history based: last announcement per peer, decision times, expiries).
use std::collections::BTreeMap;
use std::net::SocketAddr;
use std::str::FromStr;

use super::{
    chooser::Chooser,
    fwd::Focus,
    io::{self, SimClock},
    l1::L1,
    refmodel::range_matches,
    runner::{RunCtx, RunOut, Tier, Violation},
};
use crate::{
    table::ClaimTable,
    types::{Address, Range},
};

const RANGES: [&str; 6] = ["10.0.0.0/8", "10.1.0.0/16", "10.1.1.0/24", "10.1.1.128/25", "10.2.0.0/15", "fd00::/16"];
const ADDRS: [&str; 10] = ["10.1.1.130", "10.1.1.127", "10.1.2.1", "10.3.0.1", "10.2.0.1", "11.0.0.1", "10.1.1.128", "10.0.255.255", "fd00::1", "fe00::1"];
const CACHE_TIMEOUT: i64 = 30;
const CLAIM_TIMEOUT: i64 = 100;

fn peer(i: usize) -> SocketAddr {
    super::world::node_addr(i, 0)
}

fn bytes(a: &Address) -> Vec<u8> {
    a.data[..a.len as usize].to_vec()
}

#[derive(Clone, Debug)]
struct RefClaim {
    range: Range,
    peer: SocketAddr,
    expiry: i64,
}

#[derive(Clone, Debug)]
struct RefCache {
    peer: SocketAddr,
    expiry: i64,
}

struct Model {
    claims: Vec<RefClaim>,
    cache: BTreeMap<Vec<u8>, RefCache>,
    now: i64,
}

impl Model {
    fn sweep(&mut self) {
        let now = self.now;
        self.claims.retain(|c| c.expiry >= now);
        self.cache.retain(|_, c| c.expiry >= now);
    }

    /// the peer's claims become exactly `ranges`; a dropped claim takes the peer's cached decisions with it
    fn announce(&mut self, p: SocketAddr, ranges: &[Range]) {
        let before = self.claims.iter().filter(|c| c.peer == p).count();
        let mut dropped = false;
        let now = self.now;
        self.claims.retain(|c| {
            if c.peer != p {
                return true;
            }
            let keep = ranges.contains(&c.range);
            if !keep {
                dropped = true;
            }
            keep
        });
        let _ = before;
        for r in ranges {
            match self.claims.iter_mut().find(|c| c.peer == p && c.range == *r) {
                Some(c) => c.expiry = now + CLAIM_TIMEOUT,
                None => self.claims.push(RefClaim { range: *r, peer: p, expiry: now + CLAIM_TIMEOUT }),
            }
        }
        if dropped {
            self.cache.retain(|_, c| c.peer != p);
        }
        self.sweep();
    }

    fn disconnect(&mut self, p: SocketAddr) {
        self.claims.retain(|c| c.peer != p);
        self.cache.retain(|_, c| c.peer != p);
        self.sweep();
    }

    /// admissible next hops for a lookup, and the decision to remember
    fn lookup(&mut self, a: &Address) -> Vec<Option<SocketAddr>> {
        let key = bytes(a);
        let mut adm: Vec<Option<SocketAddr>> = vec![];
        if let Some(c) = self.cache.get(&key) {
            // a remembered decision may be reused until a sweep removes it (a fresh decision is always fine)
            adm.push(Some(c.peer));
        }
        let mut best: Option<u8> = None;
        let mut hops: Vec<(SocketAddr, i64)> = vec![];
        for c in &self.claims {
            if range_matches(&bytes(&c.range.base), c.range.prefix_len, &key) {
                match best {
                    Some(b) if c.range.prefix_len < b => {}
                    Some(b) if c.range.prefix_len == b => hops.push((c.peer, c.expiry)),
                    _ => {
                        best = Some(c.range.prefix_len);
                        hops = vec![(c.peer, c.expiry)];
                    }
                }
            }
        }
        if hops.is_empty() {
            if adm.is_empty() {
                adm.push(None);
            }
            return adm;
        }
        adm.extend(hops.iter().map(|h| Some(h.0)));
        adm
    }

    fn remember(&mut self, a: &Address, hop: SocketAddr) {
        let key = bytes(a);
        if self.cache.contains_key(&key) {
            return;
        }
        // the decision lives no longer than the switch timeout and not beyond the claim it came from
        let exp = self
            .claims
            .iter()
            .filter(|c| c.peer == hop && range_matches(&bytes(&c.range.base), c.range.prefix_len, &key))
            .map(|c| (c.range.prefix_len, c.expiry))
            .max()
            .map(|x| x.1)
            .unwrap_or(self.now);
        self.cache.insert(key, RefCache { peer: hop, expiry: (self.now + CACHE_TIMEOUT).min(exp) });
    }

    fn learn(&mut self, a: &Address, p: SocketAddr) {
        self.cache.insert(bytes(a), RefCache { peer: p, expiry: self.now + CACHE_TIMEOUT });
    }
}

pub const OPS: u64 = 14;

pub fn sweep_len(tier: Tier) -> u32 {
    match tier {
        Tier::Quick => 4,
        Tier::Thorough => 6,
    }
}

pub fn sweep_size(tier: Tier) -> u64 {
    OPS.pow(sweep_len(tier))
}

pub fn run(focus: Focus, seed: u64, ch: Chooser, ctx: &RunCtx, index: u64) -> RunOut {
    let mut l = L1::new(ch, ctx);
    let res = inner(&mut l, focus, seed, ctx, index);
    let nt = l.counters.get("tbl_ops_checked").copied().unwrap_or(0) > 0;
    l.finish(res, nt)
}

fn viol(l: &mut L1, focus: Focus, prop: Focus, oracle: &'static str, sig: &str, msg: String) -> Result<(), Violation> {
    if focus == prop {
        Err(Violation::new(oracle, sig.to_string(), format!("{} (table level): {}", prop.name(), msg)))
    } else {
        l.count("foreign_observations");
        Ok(())
    }
}

fn inner(l: &mut L1, focus: Focus, seed: u64, ctx: &RunCtx, index: u64) -> Result<(), Violation> {
    let _h = io::install_hooks(seed);
    struct Unhook;
    impl Drop for Unhook {
        fn drop(&mut self) {
            io::uninstall_hooks();
        }
    }
    let _u = Unhook;
    let ranges: Vec<Range> = RANGES.iter().map(|r| Range::from_str(r).unwrap()).collect();
    let addrs: Vec<Address> = ADDRS.iter().map(|a| Address::from_str(a).unwrap()).collect();
    let mut t: ClaimTable<SimClock> = ClaimTable::new(CACHE_TIMEOUT as u32, CLAIM_TIMEOUT as u32);
    let mut m = Model { claims: vec![], cache: BTreeMap::new(), now: 1000 };
    SimClock::set(m.now);
    let sweep = index < sweep_size(ctx.tier);
    let steps = if sweep { sweep_len(ctx.tier) } else { 10 + l.ch.choose("steps", 290) };
    l.count(if sweep { "tbl_sweep_runs" } else { "tbl_random_runs" });
    let mut idx = index;
    for step in 0..steps {
        // alphabet (sweep): 0-2 announce a fixed set by peer 0/1/2, 3 withdraw one claim of peer 0, 4 disconnect peer 1,
        // 5-7 lookups, 8 learn, 9 time +0 sweep, 10 time +1, 11 time +cache timeout, 12 time +cache timeout+1, 13 time +claim timeout+1
        let op = if sweep {
            let d = idx % OPS;
            idx /= OPS;
            d as usize
        } else {
            l.ch.weighted("op", &[3, 3, 3, 3, 2, 5, 5, 5, 2, 2, 3, 2, 2, 1])
        };
        l.ev(70 + op as u64, &[]);
        match op {
            0..=2 => {
                let p = peer(op);
                let set: Vec<Range> = if sweep {
                    match op {
                        0 => vec![ranges[0], ranges[2], ranges[3]],
                        1 => vec![ranges[1], ranges[4]],
                        _ => vec![ranges[2], ranges[5]],
                    }
                } else {
                    // any subset, any order, duplicates allowed
                    let n = l.ch.choose("set_size", 5) as usize;
                    (0..n).map(|_| ranges[l.ch.choose("range", 6) as usize]).collect()
                };
                l.note(|| format!("t={} peer {} announces {:?}", m.now, op, set.iter().map(|r| format!("{}", r)).collect::<Vec<_>>()));
                let mut dedup: Vec<Range> = vec![];
                for r in &set {
                    if !dedup.contains(r) {
                        dedup.push(*r);
                    }
                }
                m.announce(p, &dedup);
                let sv: crate::types::RangeList = set.iter().copied().collect();
                io::guarded(|| t.set_claims(p, sv)).map_err(|e| Violation::new("no-panic", "table-panics", e))?;
                l.count("tbl_announcements");
            }
            3 => {
                // peer 0 announces what it has minus one claim (or a permutation when sweeping)
                let p = peer(0);
                let mut mine: Vec<Range> = m.claims.iter().filter(|c| c.peer == p).map(|c| c.range).collect();
                if !mine.is_empty() {
                    let k = if sweep { 0 } else { l.ch.choose("withdraw_which", mine.len() as u32) as usize };
                    mine.remove(k);
                    if !sweep && l.ch.chance("permute", 500) {
                        mine.reverse();
                    }
                }
                l.note(|| format!("t={} peer 0 re-announces {:?} (one claim withdrawn)", m.now, mine.iter().map(|r| format!("{}", r)).collect::<Vec<_>>()));
                m.announce(p, &mine);
                let sv: crate::types::RangeList = mine.iter().copied().collect();
                io::guarded(|| t.set_claims(p, sv)).map_err(|e| Violation::new("no-panic", "table-panics", e))?;
                l.count("tbl_withdrawals");
            }
            4 => {
                let p = if sweep { peer(1) } else { peer(l.ch.choose("disconnect_who", 3) as usize) };
                l.note(|| format!("t={} {} disconnects", m.now, p));
                m.disconnect(p);
                io::guarded(|| t.remove_claims(p)).map_err(|e| Violation::new("no-panic", "table-panics", e))?;
                l.count("tbl_disconnects");
            }
            5..=7 => {
                let a = if sweep { addrs[[0, 2, 4][op - 5]] } else { addrs[l.ch.choose("addr", 10) as usize] };
                let adm = m.lookup(&a);
                let got = io::guarded(|| t.lookup(a)).map_err(|e| Violation::new("no-panic", "table-panics", e))?;
                l.note(|| format!("t={} lookup {} -> {:?} (admissible {:?})", m.now, a, got, adm));
                l.count("tbl_lookups_checked");
                if !adm.contains(&got) {
                    return viol(l, focus, Focus::C11, "next-hop", if got.is_none() { "live-claim-not-used" } else if adm == vec![None] { "dead-claim-or-decision-used" } else { "not-most-specific-live-claim" }, format!("step {}: lookup of {} returned {:?}; reference admits {:?} (claims {:?}, cached {:?}, now {})", step, a, got, adm, m.claims.iter().map(|c| (format!("{}", c.range), c.peer.port(), c.expiry)).collect::<Vec<_>>(), m.cache.get(&bytes(&a)).map(|c| (c.peer, c.expiry)), m.now));
                }
                if let Some(h) = got {
                    m.remember(&a, h);
                }
            }
            8 => {
                let a = if sweep { addrs[0] } else { addrs[l.ch.choose("learn_addr", 10) as usize] };
                let p = if sweep { peer(2) } else { peer(l.ch.choose("learn_peer", 3) as usize) };
                l.note(|| format!("t={} learn {} behind {}", m.now, a, p));
                m.learn(&a, p);
                io::guarded(|| t.cache(a, p)).map_err(|e| Violation::new("no-panic", "table-panics", e))?;
                l.count("tbl_learned");
            }
            _ => {
                let d = match op {
                    9 => 0,
                    10 => 1,
                    11 => CACHE_TIMEOUT,
                    12 => CACHE_TIMEOUT + 1,
                    _ => CLAIM_TIMEOUT + 1,
                };
                m.now += d;
                l.ticks += d as u64;
                SimClock::set(m.now);
                l.note(|| format!("t={} (+{}) housekeeping", m.now, d));
                m.sweep();
                io::guarded(|| t.housekeep()).map_err(|e| Violation::new("no-panic", "table-panics", e))?;
                l.count("tbl_time_steps");
            }
        }
        // ---- state comparison after every operation
        let snap = t.verif_snapshot();
        l.count("tbl_ops_checked");
        let mut have: Vec<(Vec<u8>, u8, SocketAddr, i64)> = snap.claims.iter().map(|c| (bytes(&c.0.base), c.0.prefix_len, c.1, c.2)).collect();
        let mut want: Vec<(Vec<u8>, u8, SocketAddr, i64)> = m.claims.iter().map(|c| (bytes(&c.range.base), c.range.prefix_len, c.peer, c.expiry)).collect();
        have.sort();
        have.dedup();
        want.sort();
        if have != want {
            let hs: Vec<_> = have.iter().map(|h| (h.0.clone(), h.1, h.2)).collect();
            let ws: Vec<_> = want.iter().map(|h| (h.0.clone(), h.1, h.2)).collect();
            let sig = if hs.iter().any(|h| !ws.contains(h)) { "withdrawn-or-dead-claim-still-in-table" } else if ws.iter().any(|h| !hs.contains(h)) { "announced-claim-missing" } else { "claim-expiry-differs" };
            if focus == Focus::C11 {
                // C11 speaks about lookups: a table whose claims differ from the announcement history is carried on to
                // the first moment where table and history disagree about what is live, swept, and asked for every
                // address; the run ends there
                let mut at: Option<i64> = None;
                for h in have.iter().filter(|h| !want.contains(h)) {
                    // in the table: (not) in the history with another expiry
                    let other = want.iter().find(|x| x.0 == h.0 && x.1 == h.1 && x.2 == h.2).map(|x| x.3);
                    let t = match other {
                        Some(o) => o.min(h.3) + 1,
                        None => m.now,
                    };
                    at = Some(at.map(|a: i64| a.min(t)).unwrap_or(t));
                }
                for x in want.iter().filter(|x| !have.iter().any(|h| h.0 == x.0 && h.1 == x.1 && h.2 == x.2)) {
                    let _ = x;
                    at = Some(at.map(|a: i64| a.min(m.now)).unwrap_or(m.now));
                }
                let at = at.unwrap_or(m.now).max(m.now);
                m.now = at;
                SimClock::set(at);
                m.sweep();
                io::guarded(|| t.housekeep()).map_err(|e| Violation::new("no-panic", "table-panics", e))?;
                l.count("tbl_divergence_followed_to_a_lookup");
                for a in &addrs {
                    let adm = m.lookup(a);
                    let got = io::guarded(|| t.lookup(*a)).map_err(|e| Violation::new("no-panic", "table-panics", e))?;
                    if !adm.contains(&got) {
                        return viol(l, focus, Focus::C11, "next-hop", if got.is_none() { "live-claim-not-used" } else if adm == vec![None] { "dead-claim-or-decision-used" } else { "not-most-specific-live-claim" }, format!("step {}: the table's claims {:?} differ from the announcement history {:?}; at t={} a lookup of {} returns {:?}, the history admits {:?}", step, have.iter().map(|h| (h.1, h.2.port(), h.3)).collect::<Vec<_>>(), want.iter().map(|h| (h.1, h.2.port(), h.3)).collect::<Vec<_>>(), at, a, got, adm));
                    }
                }
                l.count("tbl_divergence_not_visible_to_lookups");
                return Ok(());
            }
            return viol(l, focus, Focus::C12, "claims-equal-announcement", sig, format!("step {}: table holds claims {:?}, the announcement history gives {:?}", step, have.iter().map(|h| (h.1, h.2.port(), h.3)).collect::<Vec<_>>(), want.iter().map(|h| (h.1, h.2.port(), h.3)).collect::<Vec<_>>()));
        }
        let mut hc: Vec<(Vec<u8>, SocketAddr, i64)> = snap.cache.iter().map(|c| (bytes(&c.0), c.1, c.2)).collect();
        let mut wc: Vec<(Vec<u8>, SocketAddr, i64)> = m.cache.iter().map(|(k, c)| (k.clone(), c.peer, c.expiry)).collect();
        hc.sort();
        wc.sort();
        // the table may forget decisions earlier than it has to (it does so when an announcement repeats a
        // claim): entries missing in the table are dropped from the reference too; what the table holds must be
        // exactly what the decision history gives
        wc.retain(|w| hc.iter().any(|h| h.0 == w.0));
        m.cache.retain(|k, _| hc.iter().any(|h| h.0 == *k));
        if hc != wc {
            let stale = hc.iter().any(|h| !wc.iter().any(|w| w.0 == h.0 && w.1 == h.1));
            // "decisions cached from a claim disappear with it" is stated by C11 (cache lifetime) and by C12 (routes
            // track announcements): either check reports it
            let prop = if focus == Focus::C12 { Focus::C12 } else { Focus::C11 };
            let _ = stale;
            return viol(l, focus, prop, "cache-lifetime", if stale { "cached-decision-outlives-its-source" } else { "cached-decision-lifetime-differs" }, format!("step {}: table caches {:?}, the decision history gives {:?} (now {})", step, hc.iter().map(|h| (h.0.clone(), h.1.port(), h.2)).collect::<Vec<_>>(), wc.iter().map(|h| (h.0.clone(), h.1.port(), h.2)).collect::<Vec<_>>(), m.now));
        }
    }
    l.states.push(m.claims.len() as u64 * 100 + m.cache.len() as u64);
    Ok(())
}
