//! C11 - see fwd.rs (forwarding family)
use super::{
    chooser::Chooser,
    fwd::{self, Focus},
    runner::{RunCtx, RunOut, Scenario, Tier},
};

pub struct C11;

impl Scenario for C11 {
    fn id(&self) -> &'static str {
        "C11"
    }

    fn run(&self, seed: u64, ch: Chooser, ctx: &RunCtx) -> RunOut {
        // the first 14^4 runs (thorough: 14^6) sweep all short operation sequences at table level; of the rest,
        // three in four are random table level histories and one in four is a node level run
        let sweep = super::tbl::sweep_size(ctx.tier);
        if ctx.index < sweep || (ctx.index - sweep) % 4 != 0 {
            return super::tbl::run(Focus::C11, seed, ch, ctx, ctx.index);
        }
        fwd::run(Focus::C11, seed, ch, ctx)
    }

    fn budget(&self, tier: Tier) -> (u64, u64) {
        match tier {
            Tier::Quick => (38416 + 12_000, 120),
            Tier::Thorough => (7_529_536 + 480_000, 1500),
        }
    }

    fn rule(&self) -> &'static str {
        "router/normal meshes on tun (and router mode on tap with MAC ranges) whose nodes claim 1-3 ranges from a nested/overlapping universe (IPv4 /0../32, IPv6), packets to addresses inside, between and outside the claims, time steps of 0/1/switch timeout -1,+0,+1, optional loss (claims expire), restarts with other claims; oracle per interface read: the next hop reported by the lookup probe is the peer of a longest-prefix match over the claims in the table dump (bit-by-bit reference matcher) or a cached decision that the history-based reference still holds (made <= switch timeout ago, not beyond its claim's expiry, peer not removed, claim not withdrawn since); no live claim: router mode sends nothing and counts the drop; cache entries never outlive the switch timeout or a sweep after their expiry. Non-trivial: at least one lookup was checked."
    }

    fn expected_probes(&self) -> Vec<&'static str> {
        vec!["c11_lookups_checked", "c11_lookups_with_match", "c11_cache_hits", "fwd_dropped_no_route", "fwd_time_steps", "fwd_claim_withdrawals"]
    }
}
