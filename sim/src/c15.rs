//! C15 - silent peers time out; healthy peers never do, for every timeout setting
use std::collections::BTreeMap;

use super::{
    chooser::Chooser,
    mesh::{self, finish, panic_violation},
    runner::{RunCtx, RunOut, Scenario, Tier, Violation},
    world::{Step, StepKind, World},
};
use crate::verif::Event;

pub struct C15;

pub const TIMEOUTS: [u32; 9] = [300, 120, 121, 119, 60, 59, 1, 0, 65535];
pub const MIXED_THOROUGH: u64 = 20000;
pub const KEEPALIVES: [Option<u32>; 5] = [None, Some(1), Some(30), Some(600), Some(70000)];

fn guard(w: &World, st: &Step) -> Result<(), Violation> {
    match panic_violation(w, st, "C15") {
        Some(mut v) => {
            // arithmetic faults in the timeout computations get their own signature
            if v.message.contains("subtract with overflow") {
                v.signature = format!("timeout-arithmetic-overflow-{}", if matches!(st.kind, StepKind::Boot { .. }) { "at-start" } else { "in-housekeeping" });
            }
            Err(v)
        }
        None => Ok(()),
    }
}

/// Clause 3: whenever an announcement is scheduled, interval == 1 or interval < min advertised timeout
fn check_schedule(w: &mut World, st: &Step) -> Result<(), Violation> {
    for ev in &st.probes {
        if let Event::NodeInfoScheduled { interval, .. } = ev {
            let n = match st.node {
                Some(n) => n,
                None => continue,
            };
            let snap = match w.snapshot(n) {
                Some(s) => s,
                None => continue,
            };
            // what the current peers advertise: the configuration of the incarnation each entry stands for (a stale
            // entry of a dead incarnation counts with what that incarnation advertised)
            let ref_min: u32 = snap.peers.iter().map(|p| w.advertised_timeout.get(&p.node_id).map(|t| *t as u32).unwrap_or(p.peer_timeout as u32)).min().unwrap_or(300);
            w.count("c15_schedule_checked");
            if !snap.peers.is_empty() {
                w.count("c15_schedule_checked_with_peers");
            }
            if ref_min < 120 {
                w.count("c15_schedule_min_timeout_below_120");
            }
            let interval = *interval as u32;
            if !(interval == 1 || interval < ref_min) {
                return Err(Violation::new(
                    "announce-interval",
                    "interval-not-below-min-advertised-timeout",
                    format!("n{} scheduled its next announcement in {} s while the smallest timeout advertised by its peers is {} s (own timeout {}, keepalive {:?})", n, interval, ref_min, w.nodes[n].cfg.peer_timeout, w.nodes[n].cfg.keepalive),
                ));
            }
            let actual = snap.next_peers - w.node_now_s(n);
            if actual != interval as i64 {
                return Err(Violation::new("announce-interval", "scheduled-time-differs-from-interval", format!("n{} reports interval {} but next announcement is in {} s", n, interval, actual)));
            }
        }
    }
    Ok(())
}

fn hetero(w: &mut World, ctx: &RunCtx, states: &mut Vec<u64>) -> Result<(), Violation> {
    w.count("c15_shape_hetero_mesh");
    let k = w.add_key(None);
    let n = 2 + w.ch.choose("nodes", 3) as usize;
    let fam = w.ch.choose("addr_family", 2) as u8;
    let weights: [u32; 9] = if ctx.tier == Tier::Quick { [6, 4, 4, 4, 4, 4, 3, 3, 1] } else { [4, 4, 4, 4, 4, 4, 4, 4, 2] };
    let mut tmax = 0;
    let mut tmin = u32::MAX;
    for i in 0..n {
        let mut c = mesh::tun_node(i);
        c.key = k;
        // first runs of the batch take the grid in order so that every value is used
        let ti = if ctx.index < 72 && i == 0 { (ctx.index / 8 % 9) as usize } else { w.ch.weighted("timeout", &weights) };
        c.peer_timeout = TIMEOUTS[ti];
        c.keepalive = KEEPALIVES[w.ch.weighted("keepalive", &[5, 2, 2, 2, 1])];
        c.tick_phase_ms = w.ch.choose("tick_phase", 1000) as u64;
        tmax = tmax.max(c.peer_timeout);
        tmin = tmin.min(c.peer_timeout);
        for j in 0..i {
            c.peers.push(mesh::node_text(j, fam));
        }
        w.add_node(c, fam);
    }
    w.net.jitter_ms = 20;
    for i in 0..n {
        let st = w.start_node(i);
        guard(w, &st)?;
        if let Some(e) = &w.nodes[i].start_error {
            return Err(Violation::new("node-starts", "start-error", format!("n{} failed to dial its configured peer at start: {}", i, e)));
        }
        check_schedule(w, &st)?;
    }
    let pairs = mesh::all_pairs(n);
    let connected = mesh::run_until_connected(w, &pairs, if tmin < 3 { 5_000 } else { 20_000 }, |w, st| {
        guard(w, st)?;
        check_schedule(w, st)
    })?;
    states.push(mesh::abstract_state(w));
    if !connected {
        w.count("c15_mesh_not_formed");
        if tmin >= 3 {
            return Err(Violation::new("mesh-forms", "mesh-not-formed-20s", "a fully configured mesh on a delivering network did not form within 20 s".to_string()));
        }
    }
    // warm-up: announcements scheduled before the mesh was complete may still be pending
    let mut warm = 0i64;
    for i in 0..n {
        if let Some(s) = w.snapshot(i) {
            warm = warm.max(s.next_peers - w.node_now_s(i));
        }
    }
    let warm_ms = if tmin < 3 { 5_000 } else { (warm.max(0) as u64 + 5) * 1000 };
    let until = w.now_ms + warm_ms;
    w.run_until(until, |w, st| {
        guard(w, st)?;
        check_schedule(w, st)
    })?;
    // meshes with a timeout below 3 s re-handshake every second and bounce repeated handshake messages at
    // round-trip speed: only the scheduling clause is checked there, and 30 s are enough for it
    let span = if tmin < 3 {
        30
    } else if ctx.tier == Tier::Quick {
        3 * tmax.min(1200) as u64 + 30
    } else {
        3 * tmax as u64 + 30
    };
    let until = w.now_ms + span * 1000;
    let check_b = tmin >= 3 && connected;
    if check_b {
        w.count("c15_no_spurious_timeout_checked");
    }
    w.run_until(until, |w, st| {
        guard(w, st)?;
        check_schedule(w, st)?;
        if check_b {
            for ev in &st.probes {
                if let Event::PeerRemoved { addr, reason } = ev {
                    if *reason == "timeout" {
                        let who = w.node_by_addr(*addr).unwrap_or(99);
                        let me = st.node.unwrap_or(99);
                        return Err(Violation::new(
                            "no-spurious-timeout",
                            "healthy-peer-timed-out",
                            format!("n{} (timeout {} s) timed out healthy peer n{} (keepalive {:?}, its interval follows from its peers' advertised timeouts) in a stable mesh on a delivering network", me, w.nodes[me.min(w.nodes.len() - 1)].cfg.peer_timeout, who, w.nodes[who.min(w.nodes.len() - 1)].cfg.keepalive),
                        ));
                    }
                }
            }
        }
        Ok(())
    })?;
    states.push(mesh::abstract_state(w));
    if check_b && !pairs.iter().all(|(a, b)| w.is_connected(*a, *b)) {
        return Err(Violation::new("no-spurious-timeout", "mesh-not-connected-at-end", "stable mesh lost a connection without any fault".to_string()));
    }
    // ---- a node comes back with a different timeout while its peers still hold its old entry: the mesh settles
    // again and the same two clauses hold for the new set of advertised timeouts
    if !connected || tmin < 3 || !w.ch.chance("restart_with_other_timeout", 400) {
        return Ok(());
    }
    // the last node dials everybody else itself; any other node is only known again to the higher-numbered ones
    // after they timed its old entry out, which is affordable with small timeouts only
    let x = if tmax <= 600 && w.ch.chance("restart_any_node", 500) { w.ch.choose("restart_who", n as u32) as usize } else { n - 1 };
    let new_t = *w.ch.pick("new_timeout", &[30u32, 60, 59, 119, 300, 120, 10, 3]);
    let graceful = w.ch.chance("restart_graceful", 300);
    if graceful {
        if let Some(st) = w.stop_node(x) {
            guard(w, &st)?;
        }
    } else {
        w.crash_node(x);
    }
    let pause = w.ch.choose("restart_pause_ms", 3_000) as u64;
    let until = w.now_ms + pause;
    w.run_until(until, |w, st| {
        guard(w, st)?;
        check_schedule(w, st)
    })?;
    w.nodes[x].cfg.peer_timeout = new_t;
    w.count("c15_restarts_with_other_timeout");
    let st = w.start_node(x);
    guard(w, &st)?;
    check_schedule(w, &st)?;
    let tmax2 = (0..n).map(|i| w.nodes[i].cfg.peer_timeout).max().unwrap_or(300);
    // The mesh has settled again when every pair is connected, no handshake is pending or lingering, nothing was
    // added or removed for 5 s, and every node has scheduled an announcement since it last added a peer (an
    // announcement scheduled before a peer with a smaller timeout joined may come too late for that peer; the
    // flapping and the handshake repeat storms that follow are not what this clause is about). The scheduling clause
    // itself is checked all the way through.
    let deadline = w.now_ms + (tmax2.min(1200) as u64 + 400) * 1000;
    let mut last_added = vec![w.now_ms; n];
    let mut last_sched = vec![0u64; n];
    let mut last_change = w.now_ms;
    let mut settled = false;
    while w.now_ms < deadline {
        let until = (w.now_ms + 1000).min(deadline);
        while let Some(st) = w.step(until) {
            guard(w, &st)?;
            check_schedule(w, &st)?;
            if let Some(i) = st.node {
                for ev in &st.probes {
                    match ev {
                        Event::PeerAdded { .. } => {
                            last_added[i] = w.now_ms;
                            last_change = w.now_ms;
                        }
                        Event::PeerRemoved { .. } => last_change = w.now_ms,
                        Event::NodeInfoScheduled { .. } => last_sched[i] = w.now_ms,
                        _ => {}
                    }
                }
            }
        }
        let quiet = (0..n).all(|i| match w.snapshot(i) {
            Some(s) => s.pending.is_empty() && s.peers.iter().all(|p| p.init_stage.is_none()),
            None => false,
        });
        if quiet && last_change + 5_000 <= w.now_ms && (0..n).all(|i| last_sched[i] > last_added[i]) && pairs.iter().all(|(a, b)| w.is_connected(*a, *b)) {
            settled = true;
            break;
        }
    }
    if !settled {
        w.count("c15_mesh_not_settled_after_restart");
        return Ok(());
    }
    let span = 3 * tmax2.min(1200) as u64 + 30;
    let until = w.now_ms + span * 1000;
    w.count("c15_no_spurious_timeout_checked_after_restart");
    w.run_until(until, |w, st| {
        guard(w, st)?;
        check_schedule(w, st)?;
        for ev in &st.probes {
            if let Event::PeerRemoved { addr, reason } = ev {
                if *reason == "timeout" {
                    let who = w.node_by_addr(*addr).unwrap_or(99);
                    let me = st.node.unwrap_or(99);
                    return Err(Violation::new(
                        "no-spurious-timeout",
                        "healthy-peer-timed-out",
                        format!("n{} (timeout {} s) timed out healthy peer n{} in a mesh that had settled again after n{} came back with timeout {} s", me, w.nodes[me.min(w.nodes.len() - 1)].cfg.peer_timeout, who, x, new_t),
                    ));
                }
            }
        }
        Ok(())
    })?;
    states.push(mesh::abstract_state(w));
    Ok(())
}

fn silence(w: &mut World, _ctx: &RunCtx, states: &mut Vec<u64>) -> Result<(), Violation> {
    w.count("c15_shape_silence");
    let k = w.add_key(None);
    let n = 2 + w.ch.choose("nodes", 2) as usize;
    let fam = w.ch.choose("addr_family", 2) as u8;
    let grid = [300u32, 120, 121, 119, 60, 59, 5, 3];
    // learning meshes: the routes of a peer are then addresses learned behind it, which live for the switch timeout
    // (300 s) from the last frame - longer than most peer timeouts
    let learning = w.ch.chance("learning_mesh", 300);
    if learning {
        w.count("c15_silence_in_learning_mesh");
    }
    for i in 0..n {
        let mut c = if learning { mesh::tap_node(i) } else { mesh::tun_node(i) };
        c.key = k;
        c.peer_timeout = *w.ch.pick("timeout", &grid);
        c.keepalive = KEEPALIVES[w.ch.weighted("keepalive", &[5, 2, 2, 2, 1])];
        c.tick_phase_ms = w.ch.choose("tick_phase", 1000) as u64;
        for j in 0..i {
            c.peers.push(mesh::node_text(j, fam));
        }
        w.add_node(c, fam);
    }
    for i in 0..n {
        let st = w.start_node(i);
        guard(w, &st)?;
    }
    let pairs = mesh::all_pairs(n);
    if !mesh::run_until_connected(w, &pairs, 20_000, |w, st| guard(w, st))? {
        w.count("c15_mesh_not_formed");
        return Ok(());
    }
    // let initial schedules run out, then pick the instant of silence anywhere in a window
    let mut warm = 0i64;
    for i in 0..n {
        if let Some(s) = w.snapshot(i) {
            warm = warm.max(s.next_peers - w.node_now_s(i));
        }
    }
    let t = (warm.max(0) as u64 + 3) * 1000 + w.ch.choose("silence_at_ms", 200_000) as u64;
    let until = w.now_ms + t;
    w.run_until(until, |w, st| guard(w, st))?;
    if !pairs.iter().all(|(a, b)| w.is_connected(*a, *b)) {
        w.count("c15_not_connected_before_silence");
        return Ok(());
    }
    let s = w.ch.choose("silent_node", n as u32) as usize;
    let s_addr = w.nodes[s].addr;
    if learning {
        // the last thing the others hear from the node: a frame from a station behind it
        let mut src = mesh::mac(s);
        src[4] = s as u8;
        let f = mesh::eth_frame([0xff; 6], src, &[], b"last words");
        let at = w.now_ms + 1;
        w.schedule_frame(at, s, f);
        w.run_until(at + 100, |w, st| guard(w, st))?;
        let learned = (0..n).filter(|i| *i != s).filter(|i| w.snapshot(*i).map(|sn| sn.table.cache.iter().any(|c| c.1 == s_addr)).unwrap_or(false)).count();
        if learned > 0 {
            w.count("c15_addresses_learned_behind_silent_node");
        }
    }
    // selective silence: only what the node sends on its own account (announcements, keepalives, rotation and
    // handshake messages) is lost; the payload it reads from its interface still arrives. Payload is no sign of
    // life: without node information or keepalive the peer times out all the same.
    let selective = !learning && w.ch.chance("selective_silence", 300);
    if selective {
        w.control_lost.insert(s);
        w.count("c15_selective_silence");
        let span = (0..n).map(|i| w.nodes[i].cfg.peer_timeout).max().unwrap_or(300) as u64 + 10;
        let gap = 1_000 + w.ch.choose("payload_gap_ms", 4_000) as u64;
        let mut t = w.now_ms + 500;
        let mut k = 0u32;
        while t < w.now_ms + span * 1000 {
            for i in 0..n {
                if i != s {
                    k += 1;
                    let f = mesh::ipv4_packet(mesh::tun_ip(s), mesh::tun_ip(i), &k.to_be_bytes());
                    w.schedule_frame(t, s, f);
                }
            }
            t += gap;
        }
    } else {
        for i in 0..n {
            if i != s {
                w.partition(s, i, true);
            }
        }
    }
    // a stray first handshake message from the silent node's address (anybody can replay a captured one; a restarted
    // peer whose link dies again sends one too) opens a handshake next to the peer entry and must not keep it alive
    if w.ch.chance("stray_handshake_messages", 300) {
        let pings: Vec<(usize, Vec<u8>)> = (0..n)
            .filter(|i| *i != s)
            .filter_map(|i| {
                let dst = w.nodes[i].addr;
                w.wire.iter().find(|r| r.from_node == Some(s) && r.dst == dst && matches!(r.origin, super::world::Origin::Genuine) && World::is_init_datagram(&r.data)).map(|r| (i, (*r.data).clone()))
            })
            .collect();
        let span = (0..n).map(|i| w.nodes[i].cfg.peer_timeout).max().unwrap_or(300) as u64 + 10;
        let gap = 20_000 + w.ch.choose("stray_gap_ms", 80_000) as u64;
        for (i, ping) in pings {
            let dst = w.nodes[i].addr;
            let mut t = 1_000 + w.ch.choose("stray_first_ms", 60_000) as u64;
            while t < span * 1000 {
                w.inject(s_addr, dst, ping.clone(), t, "replayed-handshake-ping");
                w.count("c15_stray_handshake_messages");
                t += gap;
            }
        }
    }
    w.note(|| format!("n{} goes silent ({})", s, if selective { "its control traffic is lost, its payload still arrives" } else { "all its datagrams are dropped in both directions" }));
    states.push(mesh::abstract_state(w));
    // per observer: last known expiry of the silent peer
    let mut expiry: BTreeMap<usize, i64> = BTreeMap::new();
    let mut removed: BTreeMap<usize, bool> = BTreeMap::new();
    let mut prev_hk: BTreeMap<usize, i64> = BTreeMap::new();
    // addresses with a handshake in progress at each observer before the current step
    let mut pending_before: BTreeMap<usize, Vec<std::net::SocketAddr>> = BTreeMap::new();
    for i in 0..n {
        if i == s {
            continue;
        }
        if let Some(sn) = w.snapshot(i) {
            if let Some(p) = sn.peers.iter().find(|p| p.addr == s_addr) {
                expiry.insert(i, p.timeout);
            }
            prev_hk.insert(i, sn.next_housekeep);
        }
    }
    let tmax = (0..n).map(|i| w.nodes[i].cfg.peer_timeout).max().unwrap_or(300) as u64;
    let until = w.now_ms + (tmax + 10) * 1000;
    while let Some(st) = w.step(until) {
        guard(w, &st)?;
        let i = match st.node {
            Some(i) if i != s => i,
            _ => continue,
        };
        let sn = match w.snapshot(i) {
            Some(sn) => sn,
            None => continue,
        };
        let now = w.node_now_s(i);
        let hk_ran = prev_hk.get(&i).copied() != Some(sn.next_housekeep);
        prev_hk.insert(i, sn.next_housekeep);
        let pending_now: Vec<std::net::SocketAddr> = sn.pending.iter().map(|(a, _)| *a).collect();
        if removed.get(&i).copied().unwrap_or(false) {
            pending_before.insert(i, pending_now);
            continue;
        }
        let present = sn.peers.iter().find(|p| p.addr == s_addr);
        match present {
            Some(p) => {
                let t_exp = expiry.get(&i).copied().unwrap_or(p.timeout);
                if hk_ran && now > t_exp && p.timeout <= t_exp {
                    return Err(Violation::new(
                        "silent-peer-removed",
                        "silent-peer-not-removed-at-next-tick",
                        format!("n{} ran housekeeping at local time {} but kept silent peer n{} whose timeout {} had passed", i, now, s, t_exp),
                    ));
                }
                expiry.insert(i, p.timeout);
            }
            None => {
                removed.insert(i, true);
                w.count("c15_silent_peer_removed");
                let t_exp = expiry.get(&i).copied().unwrap_or(0);
                let by_timeout = st.probes.iter().any(|e| matches!(e, Event::PeerRemoved { addr, reason } if *addr == s_addr && *reason == "timeout"));
                if by_timeout && now <= t_exp {
                    return Err(Violation::new("silent-peer-removed", "peer-removed-before-timeout", format!("n{} removed n{} at local time {} although its timeout is {}", i, s, now, t_exp)));
                }
                if sn.table.claims.iter().any(|c| c.1 == s_addr) || sn.table.cache.iter().any(|c| c.1 == s_addr) {
                    return Err(Violation::new("silent-peer-removed", "routes-survive-timeout", format!("n{} removed silent peer n{} but keeps routes pointing at it", i, s)));
                }
                if by_timeout {
                    let dialled = st.sent.iter().any(|id| w.wire[*id].dst == s_addr && World::is_init_datagram(&w.wire[*id].data));
                    // a handshake with that address that is already in progress (a stray first message opened one) counts:
                    // the node does not start a second one next to it
                    let in_progress = sn.pending.iter().any(|(a, _)| *a == s_addr) || pending_before.get(&i).map(|v| v.contains(&s_addr)).unwrap_or(false);
                    if !dialled && !in_progress {
                        return Err(Violation::new("silent-peer-removed", "timed-out-peer-not-redialled", format!("n{} removed silent peer n{} without dialling it again", i, s)));
                    }
                    w.count("c15_redial_after_timeout");
                }
            }
        }
        pending_before.insert(i, pending_now);
    }
    for i in 0..n {
        if i != s && !removed.get(&i).copied().unwrap_or(false) {
            return Err(Violation::new("silent-peer-removed", "silent-peer-never-removed", format!("n{} still lists n{} {} s after it went silent (largest timeout {})", i, s, tmax + 10, tmax)));
        }
    }
    Ok(())
}

fn backoff(w: &mut World, _ctx: &RunCtx, states: &mut Vec<u64>) -> Result<(), Violation> {
    w.count("c15_shape_backoff");
    let k = w.add_key(None);
    let fam = w.ch.choose("addr_family", 2) as u8;
    let mut c = mesh::tun_node(0);
    c.key = k;
    let unreachable = 1 + w.ch.choose("unreachable_peers", 2) as usize;
    let xs: Vec<std::net::SocketAddr> = (0..unreachable).map(|i| mesh::unknown_addr(10 + i as u16)).collect();
    for x in &xs {
        c.peers.push(super::world::addr_text(*x));
    }
    c.tick_phase_ms = w.ch.choose("tick_phase", 1000) as u64;
    w.add_node(c, fam);
    let with_peer = w.ch.chance("real_peer", 300);
    if with_peer {
        let mut c1 = mesh::tun_node(1);
        c1.key = k;
        c1.peers.push(mesh::node_text(0, fam));
        w.add_node(c1, fam);
    }
    // send errors during a first phase (chosen length), then a fault-free remainder
    let fault_hours = w.ch.choose("fault_phase_hours", 4) as u64;
    if fault_hours > 0 {
        w.net.send_fault_pm = *w.ch.pick("send_fault_pm", &[20, 100, 300]);
    }
    for i in 0..w.nodes.len() {
        let st = w.start_node(i);
        guard(w, &st)?;
    }
    let total_ms: u64 = 48 * 3600 * 1000;
    let mut last_attempt: BTreeMap<std::net::SocketAddr, u64> = BTreeMap::new();
    let mut attempts = 0u64;
    let fault_end = fault_hours * 3600 * 1000;
    let mut next_sample = 0u64;
    while let Some(st) = w.step(total_ms) {
        guard(w, &st)?;
        if w.net.send_fault_pm > 0 && w.now_ms >= fault_end {
            w.net.send_fault_pm = 0;
            w.note(|| "send errors stop".to_string());
        }
        if st.node != Some(0) {
            continue;
        }
        for id in &st.sent {
            let dst = w.wire[*id].dst;
            if xs.contains(&dst) {
                attempts += 1;
                let prev = last_attempt.insert(dst, w.now_ms);
                if let Some(p) = prev {
                    let gap = w.now_ms - p;
                    if gap > 3_602_000 && p >= fault_end {
                        return Err(Violation::new("backoff-cap", "dial-gap-exceeds-one-hour", format!("consecutive dial attempts to unreachable configured peer {} were {} s apart", dst, gap / 1000)));
                    }
                    if gap > 600_000 {
                        w.count("c15_backoff_gap_over_10min");
                    }
                }
            }
        }
        if w.now_ms >= next_sample {
            next_sample = w.now_ms + 1_800_000;
            if let Some(sn) = w.snapshot(0) {
                for r in &sn.reconnect {
                    if r.timeout > 3600 {
                        return Err(Violation::new("backoff-cap", "reconnect-interval-exceeds-one-hour", format!("reconnect interval is {} s", r.timeout)));
                    }
                    if r.timeout == 3600 {
                        w.count("c15_backoff_cap_reached");
                    }
                }
            }
            states.push(mesh::abstract_state(w));
        }
    }
    w.count_n("c15_backoff_attempts", attempts);
    // retried indefinitely: every unreachable peer saw an attempt during the last hour (+ slack)
    for x in &xs {
        let last = last_attempt.get(x).copied().unwrap_or(0);
        if total_ms - last > 3_602_000 {
            return Err(Violation::new(
                "retry-forever",
                "configured-peer-no-longer-dialled",
                format!("no dial attempt to configured peer {} during the last {} s of a 48 h run (send errors stopped after {} h)", x, (total_ms - last) / 1000, fault_hours),
            ));
        }
    }
    Ok(())
}

/// Two-node sweep over advertised timeout values: node 0 has grid settings, node 1 advertises value v
fn sweep(w: &mut World, ctx: &RunCtx, states: &mut Vec<u64>) -> Result<(), Violation> {
    w.count("c15_shape_advertised_sweep");
    let k = w.add_key(None);
    let fam = 0;
    // boundary values first, then the index-derived value
    let boundary = [0u32, 1, 2, 3, 118, 119, 120, 121, 122, 123, 124, 125, 239, 240, 241, 65534, 65535, 32767, 32768];
    let pos = match ctx.index % 16 {
        2 => 0,
        6 => 1,
        7 => 2,
        10 => 3,
        11 => 4,
        _ => 5,
    };
    let slot = (ctx.index / 16) * 6 + pos;
    let v = if ctx.tier == Tier::Thorough && ctx.index >= MIXED_THOROUGH {
        // dedicated part of the thorough tier: every advertised value once
        ((ctx.index - MIXED_THOROUGH) % 65536) as u32
    } else if (slot as usize) < boundary.len() {
        boundary[slot as usize]
    } else {
        ((slot * 2654435761) % 65536) as u32
    };
    let mut c0 = mesh::tun_node(0);
    c0.key = k;
    c0.peer_timeout = TIMEOUTS[w.ch.choose("own_timeout", 9) as usize];
    c0.keepalive = KEEPALIVES[w.ch.choose("own_keepalive", 5) as usize];
    w.add_node(c0, fam);
    let mut c1 = mesh::tun_node(1);
    c1.key = k;
    c1.peer_timeout = v;
    c1.keepalive = Some(1 + w.ch.choose("peer_keepalive", 30));
    c1.peers.push(mesh::node_text(0, fam));
    w.add_node(c1, fam);
    for i in 0..2 {
        let st = w.start_node(i);
        guard(w, &st)?;
        check_schedule(w, &st)?;
    }
    let mut seen_with_peer = 0;
    let until = if w.nodes[0].cfg.peer_timeout < 3 || v < 3 { 25_000 } else { 140_000 };
    while let Some(st) = w.step(until) {
        guard(w, &st)?;
        check_schedule(w, &st)?;
        if st.node == Some(0) && st.probes.iter().any(|e| matches!(e, Event::NodeInfoScheduled { peers, .. } if *peers > 0)) {
            seen_with_peer += 1;
            if seen_with_peer >= 3 {
                break;
            }
        }
    }
    if seen_with_peer > 0 {
        w.count("c15_sweep_value_checked");
    }
    states.push(mesh::abstract_state(w));
    Ok(())
}

impl Scenario for C15 {
    fn id(&self) -> &'static str {
        "C15"
    }

    fn run(&self, seed: u64, ch: Chooser, ctx: &RunCtx) -> RunOut {
        let mut w = mesh::new_world(seed, ch, ctx);
        if ctx.step_cap.is_none() {
            w.max_steps = 4_000_000; // 48 h of ticks, 3 x 65535 s spans
        }
        let mut states = vec![];
        let shape = if ctx.tier == Tier::Thorough && ctx.index >= MIXED_THOROUGH { 2 } else { ctx.index % 16 };
        let res = match shape {
            3 => backoff(&mut w, ctx, &mut states),
            1 | 5 | 9 | 13 => silence(&mut w, ctx, &mut states),
            2 | 6 | 10 | 14 | 7 | 11 => sweep(&mut w, ctx, &mut states),
            _ => hetero(&mut w, ctx, &mut states),
        };
        let nontrivial = w.counters.get("c15_schedule_checked_with_peers").copied().unwrap_or(0) > 0
            || w.counters.get("c15_silent_peer_removed").copied().unwrap_or(0) > 0
            || w.counters.get("c15_backoff_attempts").copied().unwrap_or(0) > 0;
        finish(w, res, nontrivial, states)
    }

    fn budget(&self, tier: Tier) -> (u64, u64) {
        match tier {
            Tier::Quick => (1600, 120),
            Tier::Thorough => (MIXED_THOROUGH + 65536, 1500),
        }
    }

    fn rule(&self) -> &'static str {
        "run i takes shape i%16: heterogeneous mesh (5/16; 2-4 nodes, timeouts from {0,1,59,60,119,120,121,300,65535}, keepalive from {none,1,30,600,70000}, run 3x the largest timeout after warm-up - quick tier caps the span at 3x1200 s), silence injection (4/16; instant of silence anywhere in a 200 s window), advertised-timeout sweep (6/16; boundary values first, then index-derived values covering 0..65535 in the thorough tier), 48 h back-off with 1-2 unreachable configured peers and an optional send-error phase (1/16). Non-trivial: an announcement was scheduled with at least one peer, a silent peer was removed, or dial attempts were observed. Distinct = distinct event-sequence hashes."
    }

    fn exhaustive(&self, tier: Tier, runs: u64) -> bool {
        // only the advertised-value dimension of the sweep is complete; the rest is sampled
        let _ = (tier, runs);
        false
    }

    fn expected_probes(&self) -> Vec<&'static str> {
        vec!["c15_schedule_min_timeout_below_120", "c15_silent_peer_removed", "c15_redial_after_timeout", "c15_backoff_cap_reached", "c15_no_spurious_timeout_checked", "c15_sweep_value_checked", "fault_send_error"]
    }

    fn assumptions(&self) -> Vec<&'static str> {
        vec![
            "clause 'no healthy peer is ever timed out' is checked only in meshes whose timeouts are all >= 3 s and only after a warm-up equal to the longest announcement interval scheduled before the mesh was complete",
            "quick tier caps the observation span of heterogeneous meshes at 3 x 1200 s",
        ]
    }
}
