//! L2 simulator: real `GenericCloud` nodes on a simulated network, devices and clocks.
use std::{
    cmp::Reverse,
    collections::{BTreeMap, BTreeSet, BinaryHeap},
    net::{IpAddr, Ipv4Addr, Ipv6Addr, SocketAddr},
    rc::Rc,
};

use super::{
    chooser::Chooser,
    io::{self, HookHandle, SendFault, SimClock, SimDevice, SimSocket},
    rng::{self, Rng},
};
use crate::{
    cloud::GenericCloud,
    config::Config,
    crypto::Crypto,
    device::Type,
    net::mapped_addr,
    payload::{Frame, Packet},
    poll::WaitResult,
    types::Mode,
    util::MsgBuffer,
    verif::{Event, NodeSnapshot},
};

pub type TunCloud = GenericCloud<SimDevice, Packet, SimSocket, SimClock>;
pub type TapCloud = GenericCloud<SimDevice, Frame, SimSocket, SimClock>;

pub enum Cloud {
    Tun(Box<TunCloud>),
    Tap(Box<TapCloud>),
}

macro_rules! with_cloud {
    ($c:expr, $x:ident => $e:expr) => {
        match $c {
            Cloud::Tun($x) => $e,
            Cloud::Tap($x) => $e,
        }
    };
}
pub(crate) use with_cloud;

#[derive(Clone, Debug)]
pub struct KeyMat {
    pub private: String,
    pub public: String,
    pub password: Option<String>,
    pub public_bytes: [u8; 32],
}

#[derive(Clone, Debug)]
pub struct NodeCfg {
    pub key: usize,
    pub use_password: bool,
    pub give_public_key: bool,
    pub trusted: Vec<usize>,
    pub device_type: Type,
    pub mode: Mode,
    pub claims: Vec<String>,
    pub ip: Option<Ipv4Addr>,
    pub auto_claim: bool,
    pub peer_timeout: u32,
    pub keepalive: Option<u32>,
    pub switch_timeout: u32,
    pub algorithms: Vec<String>,
    pub speeds: [f32; 3],
    pub peers: Vec<String>,
    pub advertise: Vec<String>,
    pub beacon_store: Option<String>,
    pub beacon_load: Option<String>,
    pub beacon_interval: u32,
    pub beacon_password: Option<String>,
    pub nat: bool,
    pub skew_s: i64,
    pub tick_phase_ms: u64,
    /// a password configured in addition to an explicit private key (e.g. left over in a config file)
    pub extra_password: Option<String>,
    /// a `public_key` entry (of this key) left over next to a password: the password decides identity and default trust
    pub stale_public_key: Option<usize>,
}

impl Default for NodeCfg {
    fn default() -> Self {
        NodeCfg {
            key: 0,
            use_password: false,
            give_public_key: false,
            trusted: vec![],
            device_type: Type::Tun,
            mode: Mode::Normal,
            claims: vec![],
            ip: None,
            auto_claim: true,
            peer_timeout: 300,
            keepalive: None,
            switch_timeout: 300,
            algorithms: vec![],
            speeds: [600.0, 500.0, 400.0],
            peers: vec![],
            advertise: vec![],
            beacon_store: None,
            beacon_load: None,
            beacon_interval: 3600,
            beacon_password: None,
            nat: false,
            skew_s: 0,
            tick_phase_ms: 0,
            extra_password: None,
            stale_public_key: None,
        }
    }
}

pub struct Node {
    pub idx: usize,
    pub addr: SocketAddr,
    pub cfg: NodeCfg,
    pub cloud: Option<Cloud>,
    pub incarnation: u32,
    pub nat_table: BTreeMap<SocketAddr, u64>,
    pub panicked: Option<String>,
    pub start_error: Option<String>,
    pub stalled_until_ms: u64,
    pub send_fault_plan: Option<(u32, SendFault)>,
    /// node ids of all incarnations (index = incarnation-1)
    pub node_ids: Vec<[u8; 16]>,
    pub started_ms: u64,
    /// the receive buffer of this node's event loop (one per process, reused for every event)
    pub buffer: Box<MsgBuffer>,
}

#[derive(Clone, Copy, Debug, PartialEq, Eq)]
pub enum Cause {
    Boot,
    Tick,
    Net(usize),
    Dev(usize),
    Shutdown,
    Outside,
}

#[derive(Clone, Debug, PartialEq)]
pub enum Origin {
    Genuine,
    Duplicate(usize),
    Corrupted(usize, &'static str),
    Adversary(&'static str),
}

pub struct WireRec {
    pub id: usize,
    pub t_ms: u64,
    pub from_node: Option<usize>,
    pub from_inc: u32,
    pub src: SocketAddr,
    pub dst: SocketAddr,
    pub data: Rc<Vec<u8>>,
    pub cause: Cause,
    pub origin: Origin,
    pub dropped: Option<&'static str>,
    pub deliveries: u32,
}

pub struct FrameRec {
    pub id: usize,
    pub node: usize,
    pub t_ms: u64,
    pub data: Rc<Vec<u8>>,
}

pub struct DevWrite {
    pub node: usize,
    pub inc: u32,
    pub t_ms: u64,
    pub seq: u64,
    pub data: Vec<u8>,
    pub cause: Cause,
}

#[derive(Clone, Debug)]
pub struct NetCfg {
    pub enabled: bool,
    pub base_ms: u32,
    pub jitter_ms: u32,
    pub loss_pm: u32,
    pub dup_pm: u32,
    pub big_delay_pm: u32,
    pub big_delay_max_ms: u32,
    pub corrupt_pm: u32,
    pub truncate_pm: u32,
    pub reflect_pm: u32,
    pub redirect_pm: u32,
    pub send_fault_pm: u32,
    /// minimal length kept by truncation
    pub truncate_min: usize,
}

impl Default for NetCfg {
    fn default() -> Self {
        NetCfg {
            enabled: true,
            base_ms: 5,
            jitter_ms: 20,
            loss_pm: 0,
            dup_pm: 0,
            big_delay_pm: 0,
            big_delay_max_ms: 90_000,
            corrupt_pm: 0,
            truncate_pm: 0,
            reflect_pm: 0,
            redirect_pm: 0,
            send_fault_pm: 0,
            truncate_min: 0,
        }
    }
}

#[derive(Clone, Debug, PartialEq)]
pub enum EvKind {
    Deliver { wire: usize },
    Tick { node: usize, inc: u32 },
    Frame { node: usize, frame: usize },
    Action(u32, u64),
}

struct Ev {
    at: u64,
    seq: u64,
    kind: EvKind,
}

impl PartialEq for Ev {
    fn eq(&self, o: &Self) -> bool {
        self.at == o.at && self.seq == o.seq
    }
}
impl Eq for Ev {}
impl PartialOrd for Ev {
    fn partial_cmp(&self, o: &Self) -> Option<std::cmp::Ordering> {
        Some(self.cmp(o))
    }
}
impl Ord for Ev {
    fn cmp(&self, o: &Self) -> std::cmp::Ordering {
        (self.at, self.seq).cmp(&(o.at, o.seq))
    }
}

#[derive(Clone, Debug, PartialEq)]
pub enum StepKind {
    Deliver { wire: usize, to: Option<usize>, accepted: bool },
    Tick { node: usize },
    Frame { node: usize, frame: usize },
    Action(u32, u64),
    Boot { node: usize },
    Stop { node: usize },
}

pub struct Step {
    pub t_ms: u64,
    pub seq: u64,
    pub kind: StepKind,
    pub node: Option<usize>,
    pub sent: Vec<usize>,
    pub writes: usize,
    pub first_write: usize,
    pub probes: Vec<Event>,
    pub panic: Option<String>,
    pub hk_err: Option<String>,
}

pub struct World {
    pub seed: u64,
    pub ch: Chooser,
    pub hooks: HookHandle,
    pub now_ms: u64,
    pub seq: u64,
    queue: BinaryHeap<Reverse<Ev>>,
    pub nodes: Vec<Node>,
    pub keys: Vec<KeyMat>,
    pub net: NetCfg,
    pub blocked: BTreeSet<(usize, usize)>,
    /// alias address -> (node, source address seen by the receiver for datagrams sent to the alias)
    pub aliases: BTreeMap<SocketAddr, usize>,
    /// datagrams sent to this alias arrive with the given source address (hair-pin / port-forward paths)
    pub alias_src: BTreeMap<SocketAddr, SocketAddr>,
    /// multi-homed nodes: the address of node n in a second network; a datagram to a second-network address arrives
    /// with the sender's second-network address as source
    pub second_addr: BTreeMap<usize, SocketAddr>,
    /// nodes whose control traffic (everything not caused by an interface read: announcements, keepalives, rotation
    /// and handshake messages) is lost on the way out while their payload still gets through
    pub control_lost: BTreeSet<usize>,
    /// handshake messages of the given stage (1 ping, 2 pong, 3 peng) sent by the given node are lost until the
    /// given time (a targeted loss of one message kind)
    pub drop_stage: Option<(usize, u8, u64)>,
    /// node id of every incarnation -> the peer timeout it was configured with (and therefore advertises)
    pub advertised_timeout: BTreeMap<[u8; 16], u16>,
    /// node behind a translating NAT with a port forward: everybody else sees (and reaches) it as this address
    pub public_addr: BTreeMap<usize, SocketAddr>,
    pub wire: Vec<WireRec>,
    pub frames: Vec<FrameRec>,
    pub dev_writes: Vec<DevWrite>,
    pub log_hash: u64,
    pub sig_hash: u64,
    pub counters: BTreeMap<&'static str, u64>,
    pub render: Option<Vec<String>>,
    pub epoch_s: i64,
    pub last_fault_ms: u64,
    spare: Box<MsgBuffer>,
    pub steps: u64,
    pub max_steps: u64,
    pub scratch: Option<std::path::PathBuf>,
    pub aux_rng: Rng,
    /// take a snapshot of the receiving node right before a datagram with this wire id is handled
    pub snap_before: Option<usize>,
    pub pre_snapshot: Option<NodeSnapshot>,
    /// render every step from this time on (debugging aid, VERIF_TRACE_FROM_MS)
    pub trace_from_ms: Option<u64>,
}

/// the node info a node would announce right now (built by the real code)
pub fn with_cloud_ref(c: &Cloud) -> crate::messages::NodeInfo {
    with_cloud!(c, c => c.verif_create_node_info())
}

pub fn node_addr(i: usize, family: u8) -> SocketAddr {
    match family {
        0 => SocketAddr::new(IpAddr::V6(Ipv6Addr::new(0xfd00, 0, 0, 0, 0, 0, 0, 1 + i as u16)), 3210),
        _ => mapped_addr(SocketAddr::new(IpAddr::V4(Ipv4Addr::new(10, 0, 0, 1 + i as u8)), 3210)),
    }
}

/// address text as a user would configure it for this node
pub fn addr_text(a: SocketAddr) -> String {
    let nice = crate::util::addr_nice(a);
    match nice {
        // main.rs appends the default port to "[v6]:port" (it looks at the first ':'), so IPv6 peers are
        // written without a port, the way the documentation's examples do
        SocketAddr::V6(v6) if v6.port() == crate::config::DEFAULT_PORT => format!("[{}]", v6.ip()),
        other => other.to_string(),
    }
}

impl World {
    pub fn new(seed: u64, ch: Chooser) -> Self {
        let hooks = io::install_hooks(seed);
        SimClock::set(0);
        World {
            seed,
            ch,
            hooks,
            now_ms: 0,
            seq: 0,
            queue: BinaryHeap::new(),
            nodes: vec![],
            keys: vec![],
            net: NetCfg::default(),
            blocked: BTreeSet::new(),
            aliases: BTreeMap::new(),
            alias_src: BTreeMap::new(),
            second_addr: BTreeMap::new(),
            control_lost: BTreeSet::new(),
            drop_stage: None,
            advertised_timeout: BTreeMap::new(),
            public_addr: BTreeMap::new(),
            wire: vec![],
            frames: vec![],
            dev_writes: vec![],
            log_hash: 0x1234_5678_9abc_def0,
            sig_hash: 0,
            counters: BTreeMap::new(),
            render: None,
            epoch_s: 1_000_000,
            last_fault_ms: 0,
            spare: Box::new(MsgBuffer::new(100)),
            steps: 0,
            max_steps: 600_000,
            scratch: None,
            aux_rng: Rng::new(rng::mix(seed, 0xa0a0)),
            snap_before: None,
            pre_snapshot: None,
            trace_from_ms: std::env::var("VERIF_TRACE_FROM_MS").ok().and_then(|v| v.parse().ok()),
        }
    }

    pub fn count(&mut self, name: &'static str) {
        *self.counters.entry(name).or_insert(0) += 1;
    }

    pub fn count_n(&mut self, name: &'static str, n: u64) {
        *self.counters.entry(name).or_insert(0) += n;
    }

    pub fn note(&mut self, f: impl FnOnce() -> String) {
        if self.render.is_some() {
            let line = format!("t={:>9.3} {}", self.now_ms as f64 / 1000.0, f());
            self.render.as_mut().unwrap().push(line);
        }
    }

    fn hash_in(&mut self, v: u64) {
        self.log_hash = rng::mix(self.log_hash, v);
    }

    pub fn sig_in(&mut self, v: u64) {
        self.sig_hash = rng::mix(self.sig_hash, v);
    }

    pub fn now_s(&self) -> i64 {
        self.epoch_s + (self.now_ms / 1000) as i64
    }

    pub fn node_now_s(&self, n: usize) -> i64 {
        self.now_s() + self.nodes[n].cfg.skew_s
    }

    fn set_clock(&self, n: usize) {
        SimClock::set(self.node_now_s(n));
    }

    // ------------------------------------------------------------ keys

    /// Creates an explicit key pair whose textual forms round-trip (avoids the leading-zero base62 defect;
    /// C18 makes its keys itself).
    pub fn add_key(&mut self, password: Option<String>) -> usize {
        loop {
            let (private, public) = Crypto::generate_keypair(password.as_deref());
            let ok = crate::util::from_base62(&private).map(|v| v.len() == 32).unwrap_or(false)
                && crate::util::from_base62(&public).map(|v| v.len() == 32).unwrap_or(false);
            if ok || password.is_some() {
                let mut public_bytes = [0u8; 32];
                let raw = crate::util::from_base62(&public).unwrap_or_default();
                if raw.len() <= 32 {
                    public_bytes[32 - raw.len()..].copy_from_slice(&raw);
                }
                self.keys.push(KeyMat { private, public, password, public_bytes });
                return self.keys.len() - 1;
            }
        }
    }

    // ------------------------------------------------------------ nodes

    pub fn add_node(&mut self, cfg: NodeCfg, family: u8) -> usize {
        let idx = self.nodes.len();
        let addr = node_addr(idx, family);
        self.nodes.push(Node {
            idx,
            addr,
            cfg,
            cloud: None,
            incarnation: 0,
            nat_table: BTreeMap::new(),
            panicked: None,
            start_error: None,
            stalled_until_ms: 0,
            send_fault_plan: None,
            node_ids: vec![],
            started_ms: 0,
            buffer: Box::new(MsgBuffer::new(100)),
        });
        idx
    }

    pub fn build_config(&self, n: usize) -> Config {
        let c = &self.nodes[n].cfg;
        let mut config = Config::default();
        config.device_type = c.device_type;
        config.mode = c.mode;
        config.claims = c.claims.clone();
        config.auto_claim = c.auto_claim;
        config.peer_timeout = c.peer_timeout;
        config.keepalive = c.keepalive;
        config.switch_timeout = c.switch_timeout;
        config.port_forwarding = false;
        config.advertise_addresses = c.advertise.clone();
        config.beacon_store = c.beacon_store.clone();
        config.beacon_load = c.beacon_load.clone();
        config.beacon_interval = c.beacon_interval;
        config.beacon_password = c.beacon_password.clone();
        config.peers = c.peers.clone();
        let k = &self.keys[c.key];
        if c.use_password && k.password.is_some() {
            config.crypto.password = k.password.clone();
            if let Some(other) = c.stale_public_key {
                config.crypto.public_key = Some(self.keys[other].public.clone());
            }
        } else {
            config.crypto.private_key = Some(k.private.clone());
            config.crypto.password = c.extra_password.clone();
            if c.give_public_key {
                config.crypto.public_key = Some(k.public.clone());
            }
        }
        config.crypto.trusted_keys = c.trusted.iter().map(|t| self.keys[*t].public.clone()).collect();
        config.crypto.algorithms = c.algorithms.clone();
        config
    }

    /// the address other nodes use to reach node n (its public address behind a translating NAT)
    pub fn reach_addr(&self, n: usize) -> SocketAddr {
        self.public_addr.get(&n).copied().unwrap_or(self.nodes[n].addr)
    }

    /// puts node n behind a translating NAT with a port forward: seen and reached as `public`
    pub fn set_public_addr(&mut self, n: usize, public: SocketAddr) {
        let public = mapped_addr(public);
        self.public_addr.insert(n, public);
        self.aliases.insert(public, n);
    }

    /// uplink of node n down / up: while down every send of the node fails with ENETUNREACH
    pub fn set_uplink_down(&mut self, n: usize, down: bool) {
        if let Some(c) = self.nodes[n].cloud.as_mut() {
            with_cloud!(c, c => { c.verif_socket().down = down; });
        }
        if down {
            self.count("fault_uplink_down");
        }
    }

    pub fn uplink_is_down(&mut self, n: usize) -> bool {
        match self.nodes[n].cloud.as_mut() {
            Some(c) => with_cloud!(c, c => c.verif_socket().down),
            None => false,
        }
    }

    /// gives node n a second address (second network interface)
    pub fn set_second_addr(&mut self, n: usize, second: SocketAddr) {
        let second = mapped_addr(second);
        self.second_addr.insert(n, second);
        self.aliases.insert(second, n);
    }

    /// the public key node n really uses (as its Crypto object holds it)
    pub fn public_key_in_use(&self, n: usize) -> Option<[u8; 32]> {
        self.nodes[n].cloud.as_ref().map(|c| with_cloud!(c, c => c.verif_crypto().verif_public_key()))
    }

    pub fn is_up(&self, n: usize) -> bool {
        self.nodes[n].cloud.is_some()
    }

    /// Starts (or restarts) node n: GenericCloud::new + the bootstrap of main.rs::run
    pub fn start_node(&mut self, n: usize) -> Step {
        let config = self.build_config(n);
        self.start_node_with(n, config)
    }

    pub fn start_node_with(&mut self, n: usize, config: Config) -> Step {
        self.set_clock(n);
        self.hooks.borrow_mut().speeds = self.nodes[n].cfg.speeds;
        let addr = self.nodes[n].addr;
        let dtype = self.nodes[n].cfg.device_type;
        let ip = self.nodes[n].cfg.ip;
        let peers = config.peers.clone();
        let res = io::guarded(|| {
            let socket = SimSocket::new(addr);
            let device = SimDevice::new(dtype, ip);
            let mut cloud = match dtype {
                Type::Tun => Cloud::Tun(Box::new(TunCloud::new(&config, socket, device, None, None))),
                Type::Tap => Cloud::Tap(Box::new(TapCloud::new(&config, socket, device, None, None))),
            };
            let mut err = None;
            for mut addr in peers {
                if addr.find(':').unwrap_or(0) <= addr.find(']').unwrap_or(0) {
                    addr = format!("{}:{}", addr, crate::config::DEFAULT_PORT)
                }
                with_cloud!(&mut cloud, c => {
                    if let Err(e) = c.connect(&addr as &str) { err = Some(format!("{}", e)); }
                    c.add_reconnect_peer(addr);
                });
            }
            (cloud, err)
        });
        self.seq += 1;
        let mut step = Step {
            t_ms: self.now_ms,
            seq: self.seq,
            kind: StepKind::Boot { node: n },
            node: Some(n),
            sent: vec![],
            writes: 0,
            first_write: self.dev_writes.len(),
            probes: vec![],
            panic: None,
            hk_err: None,
        };
        let node = &mut self.nodes[n];
        node.incarnation += 1;
        node.panicked = None;
        node.start_error = None;
        node.nat_table.clear();
        node.started_ms = self.now_ms;
        node.buffer = Box::new(MsgBuffer::new(100));
        match res {
            Ok((cloud, err)) => {
                let id = with_cloud!(&cloud, c => c.verif_snapshot().node_id);
                node.node_ids.push(id);
                self.advertised_timeout.insert(id, node.cfg.peer_timeout as u16);
                node.cloud = Some(cloud);
                node.start_error = err;
                let inc = node.incarnation;
                let phase = node.cfg.tick_phase_ms % 1000;
                // first poll timeout one period after start
                let at = self.now_ms + 1000 - ((self.now_ms + 1000 - phase) % 1000);
                self.push_ev(at, EvKind::Tick { node: n, inc });
                self.collect(n, Cause::Boot, &mut step);
            }
            Err(msg) => {
                node.node_ids.push([0; 16]);
                node.cloud = None;
                node.panicked = Some(msg.clone());
                step.panic = Some(msg);
            }
        }
        self.hash_in(0xb007 ^ n as u64);
        let inc = self.nodes[n].incarnation;
        self.note(|| format!("n{} starts (incarnation {})", n, inc));
        step
    }

    /// Crash: the process disappears, nothing is sent
    pub fn crash_node(&mut self, n: usize) {
        self.nodes[n].cloud = None;
        self.hash_in(0xdead ^ n as u64);
        self.note(|| format!("n{} crashes", n));
    }

    /// Graceful stop: CLOSE to all peers
    pub fn stop_node(&mut self, n: usize) -> Option<Step> {
        if self.nodes[n].cloud.is_none() {
            return None;
        }
        self.set_clock(n);
        self.seq += 1;
        let mut step = Step {
            t_ms: self.now_ms,
            seq: self.seq,
            kind: StepKind::Stop { node: n },
            node: Some(n),
            sent: vec![],
            writes: 0,
            first_write: self.dev_writes.len(),
            probes: vec![],
            panic: None,
            hk_err: None,
        };
        let mut cloud = self.nodes[n].cloud.take().unwrap();
        let r = io::guarded(|| with_cloud!(&mut cloud, c => c.verif_shutdown()));
        self.nodes[n].cloud = Some(cloud);
        if let Err(m) = r {
            step.panic = Some(m);
        }
        self.collect(n, Cause::Shutdown, &mut step);
        self.nodes[n].cloud = None;
        self.hash_in(0x5709 ^ n as u64);
        self.note(|| format!("n{} stops gracefully", n));
        Some(step)
    }

    pub fn snapshot(&self, n: usize) -> Option<NodeSnapshot> {
        self.nodes[n].cloud.as_ref().map(|c| with_cloud!(c, c => c.verif_snapshot()))
    }

    pub fn node_by_addr(&self, a: SocketAddr) -> Option<usize> {
        let a = mapped_addr(a);
        if let Some(n) = self.aliases.get(&a) {
            return Some(*n);
        }
        self.nodes.iter().position(|n| n.addr == a)
    }

    pub fn node_by_id(&self, id: &[u8; 16]) -> Option<(usize, u32)> {
        for n in &self.nodes {
            for (i, nid) in n.node_ids.iter().enumerate() {
                if nid == id {
                    return Some((n.idx, i as u32 + 1));
                }
            }
        }
        None
    }

    pub fn current_node_id(&self, n: usize) -> Option<[u8; 16]> {
        if self.is_up(n) {
            self.nodes[n].node_ids.last().copied()
        } else {
            None
        }
    }

    pub fn is_connected(&self, a: usize, b: usize) -> bool {
        match self.snapshot(a) {
            Some(s) => {
                let bid = self.current_node_id(b);
                s.peers.iter().any(|p| Some(p.node_id) == bid)
            }
            None => false,
        }
    }

    // ------------------------------------------------------------ events

    fn push_ev(&mut self, at: u64, kind: EvKind) {
        self.seq += 1;
        self.queue.push(Reverse(Ev { at, seq: self.seq, kind }));
    }

    pub fn schedule_action(&mut self, at_ms: u64, code: u32, arg: u64) {
        let at = at_ms.max(self.now_ms);
        self.push_ev(at, EvKind::Action(code, arg));
    }

    pub fn schedule_frame(&mut self, at_ms: u64, node: usize, data: Vec<u8>) -> usize {
        let id = self.frames.len();
        let at = at_ms.max(self.now_ms);
        self.frames.push(FrameRec { id, node, t_ms: at, data: Rc::new(data) });
        self.push_ev(at, EvKind::Frame { node, frame: id });
        id
    }

    /// the next event, if it is the delivery of a datagram to a running node: (wire id, node)
    pub fn peek_delivery(&self) -> Option<(usize, usize)> {
        match self.queue.peek() {
            Some(Reverse(Ev { kind: EvKind::Deliver { wire }, .. })) => {
                let n = self.node_by_addr(self.wire[*wire].dst)?;
                if self.nodes[n].cloud.is_some() {
                    Some((*wire, n))
                } else {
                    None
                }
            }
            _ => None,
        }
    }

    pub fn peek_is_delivery_of(&self, wire_id: usize) -> bool {
        matches!(self.queue.peek(), Some(Reverse(Ev { kind: EvKind::Deliver { wire }, .. })) if *wire == wire_id)
    }

    pub fn next_event_time(&self) -> Option<u64> {
        self.queue.peek().map(|e| e.0.at)
    }

    /// Injects a datagram from outside the system (adversary); bypasses faults and partitions
    pub fn inject(&mut self, src: SocketAddr, dst: SocketAddr, data: Vec<u8>, delay_ms: u64, tag: &'static str) -> usize {
        let id = self.wire.len();
        self.wire.push(WireRec {
            id,
            t_ms: self.now_ms,
            from_node: None,
            from_inc: 0,
            src: mapped_addr(src),
            dst: mapped_addr(dst),
            data: Rc::new(data),
            cause: Cause::Outside,
            origin: Origin::Adversary(tag),
            dropped: None,
            deliveries: 0,
        });
        self.push_ev(self.now_ms + delay_ms, EvKind::Deliver { wire: id });
        id
    }

    fn decide_send_fault(&mut self, n: usize) {
        if self.net.enabled && self.net.send_fault_pm > 0 && self.ch.chance("send_fault", self.net.send_fault_pm) {
            let nth = 1 + self.ch.choose("send_fault_nth", 4);
            let kind = *self.ch.pick("send_fault_kind", &[SendFault::WouldBlock, SendFault::NetUnreach, SendFault::Perm, SendFault::Short, SendFault::Interrupted]);
            if let Some(c) = self.nodes[n].cloud.as_mut() {
                with_cloud!(c, c => {
                    let s = c.verif_socket();
                    s.sends = 0;
                    s.fault_at = Some((nth, kind));
                });
            }
        } else if let Some(c) = self.nodes[n].cloud.as_mut() {
            with_cloud!(c, c => { c.verif_socket().fault_at = None; });
        }
    }

    /// Executes one event of node n under catch_unwind and collects what it emitted
    fn run_node(&mut self, n: usize, evt: WaitResult, cause: Cause, step: &mut Step) {
        self.set_clock(n);
        self.decide_send_fault(n);
        let mut cloud = match self.nodes[n].cloud.take() {
            Some(c) => c,
            None => return,
        };
        std::mem::swap(&mut self.spare, &mut self.nodes[n].buffer);
        let buffer = &mut self.spare;
        let r = io::guarded(|| with_cloud!(&mut cloud, c => c.verif_step(evt, buffer)));
        std::mem::swap(&mut self.spare, &mut self.nodes[n].buffer);
        self.nodes[n].cloud = Some(cloud);
        match r {
            Ok(Ok(())) => {}
            Ok(Err(e)) => step.hk_err = Some(format!("{}", e)),
            Err(msg) => {
                step.panic = Some(msg.clone());
                self.collect(n, cause, step);
                self.nodes[n].cloud = None;
                self.nodes[n].panicked = Some(msg);
                self.count("node_panics");
                return;
            }
        }
        self.collect(n, cause, step);
    }

    fn collect(&mut self, n: usize, cause: Cause, step: &mut Step) {
        let (out, writes, sfaults, dfaults) = {
            let cloud = match self.nodes[n].cloud.as_mut() {
                Some(c) => c,
                None => return,
            };
            with_cloud!(cloud, c => {
                let s = c.verif_socket();
                let out = std::mem::take(&mut s.outbox);
                let sf = std::mem::take(&mut s.faults_fired);
                let d = c.verif_device();
                let w = std::mem::take(&mut d.outbox);
                let df = std::mem::take(&mut d.faults_fired);
                (out, w, sf, df)
            })
        };
        if sfaults > 0 {
            self.count_n("fault_send_error", sfaults as u64);
            self.last_fault_ms = self.now_ms;
        }
        if dfaults > 0 {
            self.count_n("fault_device_write_error", dfaults as u64);
            self.last_fault_ms = self.now_ms;
        }
        step.probes.extend(self.hooks.borrow_mut().probes.drain(..));
        let inc = self.nodes[n].incarnation;
        for data in writes {
            self.hash_in(rng::hash_bytes(&data) ^ 0xd0);
            self.dev_writes.push(DevWrite { node: n, inc, t_ms: self.now_ms, seq: step.seq, data, cause });
            step.writes += 1;
        }
        let src = self.nodes[n].addr;
        // Per-datagram cause for nodes whose control traffic is lost: the event of a step is handled first, so in a step
        // caused by an interface read the first datagram is the payload (when the lookup gave a next hop); whatever
        // follows was emitted by the housekeeping that ran in the same step.
        let payload_datagrams = if self.control_lost.contains(&n) && matches!(cause, Cause::Dev(_)) {
            if step.probes.iter().any(|e| matches!(e, crate::verif::Event::Lookup { hop: Some(_), .. })) {
                1
            } else {
                0
            }
        } else {
            usize::MAX
        };
        for (idx, (dst, data)) in out.into_iter().enumerate() {
            let c = if idx >= payload_datagrams { Cause::Tick } else { cause };
            let id = self.transmit(n, src, dst, data, c);
            step.sent.push(id);
        }
    }

    fn transmit(&mut self, n: usize, src: SocketAddr, dst: SocketAddr, data: Vec<u8>, cause: Cause) -> usize {
        let dst = mapped_addr(dst);
        // hair-pin: only the node's own datagrams to its alias come back with a rewritten source
        let src = match self.alias_src.get(&dst) {
            Some(s) if self.aliases.get(&dst) == Some(&n) => *s,
            _ => match self.public_addr.get(&n) {
                // translated source for everything that leaves towards another node
                Some(p) if self.aliases.get(&dst) != Some(&n) && dst != src => *p,
                _ => src,
            },
        };
        // second network: the source is the sender's address in that network
        let src = if self.second_addr.values().any(|a| *a == dst) { self.second_addr.get(&n).copied().unwrap_or(src) } else { src };
        let id = self.wire.len();
        self.hash_in(rng::hash_bytes(&data) ^ (data.len() as u64) << 32 ^ 0xaa);
        let data = Rc::new(data);
        let inc = self.nodes[n].incarnation;
        self.wire.push(WireRec {
            id,
            t_ms: self.now_ms,
            from_node: Some(n),
            from_inc: inc,
            src,
            dst,
            data: data.clone(),
            cause,
            origin: Origin::Genuine,
            dropped: None,
            deliveries: 0,
        });
        // NAT mapping of the sender
        if self.nodes[n].cfg.nat {
            let exp = self.now_ms + 300_000;
            self.nodes[n].nat_table.insert(dst, exp);
        }
        if let Some((from, stage, until)) = self.drop_stage {
            if from == n && self.now_ms < until && Self::is_init_datagram(&self.wire[id].data) {
                let d = self.wire[id].data.clone();
                let st = super::refmodel::handshake_layout(&d).and_then(|l| l.parts.iter().find(|p| p.0 == 1 && p.3 >= 1).map(|p| d[p.2]));
                if st == Some(stage) {
                    self.wire[id].dropped = Some("stage-lost");
                    self.count("fault_handshake_stage_lost");
                    return id;
                }
            }
        }
        if self.control_lost.contains(&n) && !matches!(cause, Cause::Dev(_)) {
            self.wire[id].dropped = Some("control-lost");
            self.count("fault_control_datagram_lost");
            return id;
        }
        // partition
        if let Some(m) = self.node_by_addr(dst) {
            if self.blocked.contains(&(n, m)) {
                self.wire[id].dropped = Some("partition");
                self.count("fault_partition_drop");
                return id;
            }
        }
        let net = self.net.clone();
        let mut delay = net.base_ms as u64 + self.ch.choose("jitter", net.jitter_ms + 1) as u64;
        if net.enabled {
            if self.ch.chance("loss", net.loss_pm) {
                self.wire[id].dropped = Some("loss");
                self.count("fault_drop");
                self.last_fault_ms = self.now_ms;
                return id;
            }
            if self.ch.chance("big_delay", net.big_delay_pm) {
                delay += self.ch.choose("big_delay_ms", net.big_delay_max_ms) as u64;
                self.count("fault_delay");
                if delay > 1000 {
                    self.count("fault_delay_gt_1s");
                }
                self.last_fault_ms = self.now_ms + delay;
            }
            if self.ch.chance("dup", net.dup_pm) {
                let copies = 1 + self.ch.choose("dup_copies", 3);
                for _ in 0..copies {
                    let d = net.base_ms as u64 + self.ch.choose("dup_delay", net.jitter_ms.max(2000) + 1) as u64;
                    let did = self.wire.len();
                    self.wire.push(WireRec {
                        id: did,
                        t_ms: self.now_ms,
                        from_node: Some(n),
                        from_inc: inc,
                        src,
                        dst,
                        data: data.clone(),
                        cause,
                        origin: Origin::Duplicate(id),
                        dropped: None,
                        deliveries: 0,
                    });
                    self.push_ev(self.now_ms + d, EvKind::Deliver { wire: did });
                    self.count("fault_dup");
                    self.last_fault_ms = self.now_ms + d;
                }
            }
            if self.ch.chance("corrupt", net.corrupt_pm) && !data.is_empty() {
                let mut v = (*data).clone();
                let bit = self.ch.choose("corrupt_bit", (v.len() * 8) as u32) as usize;
                v[bit / 8] ^= 1 << (bit % 8);
                let cid = self.derived(id, v, "bitflip", src, dst);
                self.push_ev(self.now_ms + delay, EvKind::Deliver { wire: cid });
                self.wire[id].dropped = Some("replaced-by-corrupted");
                self.count("fault_corrupt");
                self.last_fault_ms = self.now_ms + delay;
                return id;
            }
            if self.ch.chance("truncate", net.truncate_pm) && data.len() > net.truncate_min {
                let len = net.truncate_min + self.ch.choose("truncate_len", (data.len() - net.truncate_min) as u32) as usize;
                let v = data[..len].to_vec();
                let cid = self.derived(id, v, "truncated", src, dst);
                self.push_ev(self.now_ms + delay, EvKind::Deliver { wire: cid });
                self.wire[id].dropped = Some("replaced-by-truncated");
                self.count("fault_truncate");
                self.last_fault_ms = self.now_ms + delay;
                return id;
            }
            if self.ch.chance("reflect", net.reflect_pm) {
                // an extra copy comes back to the sender, apparently from the destination
                let cid = self.derived(id, (*data).clone(), "reflected", dst, src);
                self.push_ev(self.now_ms + delay, EvKind::Deliver { wire: cid });
                self.count("fault_reflect");
                self.last_fault_ms = self.now_ms + delay;
            }
            if self.nodes.len() > 2 && self.ch.chance("redirect", net.redirect_pm) {
                // an extra copy goes to a third node, with the original source address
                let others: Vec<usize> = (0..self.nodes.len()).filter(|m| *m != n && self.nodes[*m].addr != dst).collect();
                if !others.is_empty() {
                    let m = *self.ch.pick("redirect_to", &others);
                    let maddr = self.nodes[m].addr;
                    let cid = self.derived(id, (*data).clone(), "redirected", src, maddr);
                    self.push_ev(self.now_ms + delay, EvKind::Deliver { wire: cid });
                    self.count("fault_redirect");
                    self.last_fault_ms = self.now_ms + delay;
                }
            }
        }
        self.push_ev(self.now_ms + delay, EvKind::Deliver { wire: id });
        id
    }

    fn derived(&mut self, orig: usize, data: Vec<u8>, how: &'static str, src: SocketAddr, dst: SocketAddr) -> usize {
        let id = self.wire.len();
        let (from_node, from_inc, cause) = (self.wire[orig].from_node, self.wire[orig].from_inc, self.wire[orig].cause);
        self.wire.push(WireRec {
            id,
            t_ms: self.now_ms,
            from_node,
            from_inc,
            src,
            dst,
            data: Rc::new(data),
            cause,
            origin: Origin::Corrupted(orig, how),
            dropped: None,
            deliveries: 0,
        });
        id
    }

    /// Pops and executes the next event not later than `until_ms`. None: nothing left before the limit
    /// (the clock is then advanced to the limit).
    pub fn step(&mut self, until_ms: u64) -> Option<Step> {
        let st = self.step_inner(until_ms)?;
        // activity of the real code under test, measured (part of every evidence file)
        self.count(match st.kind {
            StepKind::Deliver { accepted: true, .. } => "real_socket_events_handled",
            StepKind::Deliver { .. } => "sim_datagrams_not_delivered",
            StepKind::Tick { .. } => "real_poll_timeouts_handled",
            StepKind::Frame { .. } => "real_device_events_handled",
            _ => "sim_scenario_actions",
        });
        if !st.sent.is_empty() {
            self.count_n("real_datagrams_sent", st.sent.len() as u64);
        }
        if st.writes > 0 {
            self.count_n("real_device_writes", st.writes as u64);
        }
        for p in &st.probes {
            match p {
                Event::Seal { .. } => self.count("real_seals"),
                Event::HandshakeDone { .. } => self.count("real_handshakes_completed"),
                Event::Lookup { .. } => self.count("real_table_lookups"),
                Event::ClaimsSet { .. } => self.count("real_announcements_processed"),
                Event::KeyRotated { .. } => self.count("real_keys_rotated"),
                Event::BeaconStored { .. } => self.count("real_beacons_stored"),
                Event::BeaconLoaded { .. } => self.count("real_beacons_loaded"),
                _ => {}
            }
        }
        if let Some(from) = self.trace_from_ms {
            if self.now_ms >= from && self.render.is_some() {
                let sent: Vec<String> = st.sent.iter().map(|id| {
                    let r = &self.wire[*id];
                    format!("{}B/{:02x}->n{}{}", r.data.len(), r.data.first().copied().unwrap_or(0), self.node_by_addr(r.dst).map(|x| x as i64).unwrap_or(-1), r.dropped.map(|d| format!("({})", d)).unwrap_or_default())
                }).collect();
                let kind = match &st.kind {
                    StepKind::Deliver { wire, accepted, .. } => format!("deliver w{} {}B/{:02x} from n{:?} acc={}", wire, self.wire[*wire].data.len(), self.wire[*wire].data.first().copied().unwrap_or(0), self.node_by_addr(self.wire[*wire].src), accepted),
                    k => format!("{:?}", k),
                };
                let probes: Vec<String> = st.probes.iter().filter(|p| !matches!(p, Event::Seal { .. } | Event::NonceStart { .. })).map(|p| format!("{:?}", p)).collect();
                let line = format!("  . n{:?} {} sent={:?} writes={} err={:?} {}", st.node, kind, sent, st.writes, st.hk_err, probes.join(" "));
                self.note(|| line);
            }
        }
        Some(st)
    }

    fn step_inner(&mut self, until_ms: u64) -> Option<Step> {
        loop {
            let at = match self.queue.peek() {
                Some(e) => e.0.at,
                None => {
                    self.now_ms = self.now_ms.max(until_ms);
                    return None;
                }
            };
            if at > until_ms || self.steps >= self.max_steps {
                self.now_ms = self.now_ms.max(until_ms);
                return None;
            }
            let ev = self.queue.pop().unwrap().0;
            self.now_ms = self.now_ms.max(ev.at);
            self.steps += 1;
            let sig_code = match &ev.kind {
                EvKind::Deliver { wire } => 1 | (self.node_by_addr(self.wire[*wire].dst).unwrap_or(99) as u64) << 8 | (self.wire[*wire].data.len() as u64 & 0xff) << 16 | (matches!(self.wire[*wire].origin, Origin::Genuine) as u64) << 24,
                EvKind::Tick { node, .. } => 2 | (*node as u64) << 8,
                EvKind::Frame { node, .. } => 3 | (*node as u64) << 8,
                EvKind::Action(c, _) => 4 | (*c as u64) << 8,
            };
            self.sig_in(sig_code);
            let mut step = Step {
                t_ms: self.now_ms,
                seq: ev.seq,
                kind: StepKind::Action(0, 0),
                node: None,
                sent: vec![],
                writes: 0,
                first_write: self.dev_writes.len(),
                probes: vec![],
                panic: None,
                hk_err: None,
            };
            match ev.kind {
                EvKind::Action(code, arg) => {
                    step.kind = StepKind::Action(code, arg);
                    self.hash_in(0xac ^ (code as u64) << 8 ^ arg << 20);
                    return Some(step);
                }
                EvKind::Tick { node, inc } => {
                    if self.nodes[node].cloud.is_none() || self.nodes[node].incarnation != inc {
                        continue;
                    }
                    let period = 1000;
                    self.push_ev(ev.at + period, EvKind::Tick { node, inc });
                    if self.nodes[node].stalled_until_ms > self.now_ms {
                        continue;
                    }
                    step.kind = StepKind::Tick { node };
                    step.node = Some(node);
                    self.hash_in(0x71c ^ (node as u64) << 12 ^ self.now_ms << 16);
                    self.run_node(node, WaitResult::Timeout, Cause::Tick, &mut step);
                    return Some(step);
                }
                EvKind::Frame { node, frame } => {
                    step.kind = StepKind::Frame { node, frame };
                    step.node = Some(node);
                    if self.nodes[node].cloud.is_none() {
                        return Some(step);
                    }
                    if self.nodes[node].stalled_until_ms > self.now_ms {
                        let at = self.nodes[node].stalled_until_ms;
                        self.push_ev(at, EvKind::Frame { node, frame });
                        continue;
                    }
                    let data = self.frames[frame].data.clone();
                    if let Some(c) = self.nodes[node].cloud.as_mut() {
                        with_cloud!(c, c => c.verif_device().inbox.push_back((*data).clone()));
                    }
                    self.hash_in(0xf4 ^ (node as u64) << 12 ^ rng::hash_bytes(&data));
                    self.run_node(node, WaitResult::Device, Cause::Dev(frame), &mut step);
                    return Some(step);
                }
                EvKind::Deliver { wire } => {
                    let (src, dst) = (self.wire[wire].src, self.wire[wire].dst);
                    let to = self.node_by_addr(dst);
                    step.kind = StepKind::Deliver { wire, to, accepted: false };
                    let n = match to {
                        Some(n) if self.nodes[n].cloud.is_some() => n,
                        _ => {
                            self.wire[wire].dropped = Some("no-such-node");
                            self.hash_in(0x10 ^ wire as u64);
                            return Some(step);
                        }
                    };
                    if self.nodes[n].stalled_until_ms > self.now_ms {
                        let at = self.nodes[n].stalled_until_ms;
                        self.push_ev(at, EvKind::Deliver { wire });
                        continue;
                    }
                    // the internal address of a node behind a translating NAT is not routable from outside
                    if self.public_addr.contains_key(&n) && dst == self.nodes[n].addr && self.wire[wire].from_node != Some(n) {
                        self.wire[wire].dropped = Some("internal-address-unreachable");
                        self.count("internal_address_unreachable");
                        self.hash_in(0x12 ^ wire as u64);
                        step.kind = StepKind::Deliver { wire, to: None, accepted: false };
                        return Some(step);
                    }
                    step.node = Some(n);
                    if self.nodes[n].cfg.nat {
                        let ok = self.nodes[n].nat_table.get(&src).map(|e| *e >= self.now_ms).unwrap_or(false);
                        if !ok {
                            self.wire[wire].dropped = Some("nat-filtered");
                            self.count("nat_filtered");
                            self.hash_in(0x11 ^ wire as u64);
                            return Some(step);
                        }
                    }
                    step.kind = StepKind::Deliver { wire, to, accepted: true };
                    if self.snap_before == Some(wire) {
                        self.pre_snapshot = self.snapshot(n);
                    }
                    self.wire[wire].deliveries += 1;
                    let data = self.wire[wire].data.clone();
                    if let Some(c) = self.nodes[n].cloud.as_mut() {
                        with_cloud!(c, c => c.verif_socket().inbox.push_back((src, (*data).clone())));
                    }
                    self.hash_in(0xde ^ (n as u64) << 12 ^ (wire as u64) << 20 ^ self.now_ms << 36);
                    self.run_node(n, WaitResult::Socket, Cause::Net(wire), &mut step);
                    return Some(step);
                }
            }
        }
    }

    /// Runs until `until_ms`, calling `f` after every executed event; stops early when f returns Err
    pub fn run_until<E>(&mut self, until_ms: u64, mut f: impl FnMut(&mut World, &Step) -> Result<(), E>) -> Result<(), E> {
        while let Some(step) = self.step(until_ms) {
            f(self, &step)?;
        }
        Ok(())
    }

    pub fn stall_node(&mut self, n: usize, ms: u64) {
        self.nodes[n].stalled_until_ms = self.now_ms + ms;
        self.count("fault_stall");
        self.last_fault_ms = self.now_ms + ms;
    }

    pub fn partition(&mut self, a: usize, b: usize, both: bool) {
        self.blocked.insert((a, b));
        if both {
            self.blocked.insert((b, a));
        }
        self.count("fault_partition");
        self.last_fault_ms = self.now_ms;
    }

    pub fn heal_all(&mut self) {
        if !self.blocked.is_empty() {
            self.count("fault_heal");
        }
        self.blocked.clear();
        self.last_fault_ms = self.now_ms;
    }

    /// The bytes node n will see when it parses `data` as a handshake message: the datagram followed by
    /// whatever its receive buffer still holds behind it (the parser reads beyond the datagram length)
    pub fn effective_datagram(&self, n: usize, data: &[u8]) -> Vec<u8> {
        let mut b = self.nodes[n].buffer.clone();
        b.clear();
        let tail = b.buffer();
        let mut v = data.to_vec();
        if data.len() < tail.len() {
            v.extend_from_slice(&tail[data.len()..]);
        }
        v
    }

    pub fn trusted_key_bytes(&self, n: usize) -> Vec<[u8; 32]> {
        let c = &self.nodes[n].cfg;
        if c.trusted.is_empty() {
            vec![self.keys[c.key].public_bytes]
        } else {
            c.trusted.iter().map(|k| self.keys[*k].public_bytes).collect()
        }
    }

    /// was the datagram handled in this step altered in flight?
    pub fn wire_was_tampered_in(&self, st: &Step) -> bool {
        match st.kind {
            StepKind::Deliver { wire, .. } => matches!(self.wire[wire].origin, Origin::Corrupted(_, _)),
            _ => false,
        }
    }

    pub fn is_init_datagram(data: &[u8]) -> bool {
        !data.is_empty() && data[0] == 0xff
    }
}

impl Drop for World {
    fn drop(&mut self) {
        // node objects must not outlive the hooks they were created with
        for n in &mut self.nodes {
            n.cloud = None;
        }
        io::uninstall_hooks();
        if let Some(dir) = self.scratch.take() {
            let _ = std::fs::remove_dir_all(dir);
        }
    }
}
