//! C17 - beacons round-trip, are found inside arbitrary text, respect age and password
use std::net::{IpAddr, Ipv4Addr, Ipv6Addr, SocketAddr};

use super::{
    chooser::Chooser,
    io::{self, SimClock},
    l1::L1,
    mesh::{self, finish, panic_violation},
    rng::Rng,
    runner::{RunCtx, RunOut, Scenario, Tier, Violation},
    world::{Step, World},
};
use crate::{beacon::BeaconSerializer, verif::Event};

pub struct C17;

type Ser = BeaconSerializer<SimClock>;

fn password(i: u32) -> String {
    match i {
        0 => String::new(),
        1 => "mysecretkey".to_string(),
        2 => " ".to_string(),
        3 => "p\u{e4}ss".to_string(),
        n => format!("beacon-password-{}", n),
    }
}

fn circ_dist(a: u16, b: u16) -> u16 {
    let d = a.wrapping_sub(b);
    d.min(b.wrapping_sub(a))
}

fn normalise(addrs: &[SocketAddr]) -> Vec<SocketAddr> {
    let mut v: Vec<SocketAddr> = addrs.iter().filter(|a| a.is_ipv4()).copied().collect();
    v.extend(addrs.iter().filter(|a| a.is_ipv6()).copied());
    v
}

fn gen_addrs(rng: &mut Rng, v4: usize, v6: usize) -> Vec<SocketAddr> {
    let mut v = vec![];
    // mixed order on purpose: the format stores IPv4 first
    let mut slots: Vec<bool> = (0..v4).map(|_| true).chain((0..v6).map(|_| false)).collect();
    for i in (1..slots.len()).rev() {
        let j = rng.below(i as u64 + 1) as usize;
        slots.swap(i, j);
    }
    for is4 in slots {
        let port = rng.below(65536) as u16;
        if is4 {
            let b = rng.bytes(4);
            v.push(SocketAddr::new(IpAddr::V4(Ipv4Addr::new(b[0], b[1], b[2], b[3])), port));
        } else {
            let b = rng.bytes(16);
            let mut s = [0u16; 8];
            for k in 0..8 {
                s[k] = u16::from_be_bytes([b[2 * k], b[2 * k + 1]]);
            }
            v.push(SocketAddr::new(IpAddr::V6(Ipv6Addr::new(s[0], s[1], s[2], s[3], s[4], s[5], s[6], s[7])), port));
        }
    }
    v
}

const ALNUM: &[u8] = b"0123456789ABCDEFGHIJKLMNOPQRSTUVWXYZabcdefghijklmnopqrstuvwxyz";
const SEPARATORS: &[u8] = b" \n\t-_.,;:/<>\"'()[]{}=+*&%$#@!?|\\~^";

fn filler(rng: &mut Rng, len: usize) -> String {
    (0..len).map(|_| if rng.below(6) == 0 { SEPARATORS[rng.below(SEPARATORS.len() as u64) as usize] as char } else { ALNUM[rng.below(62) as usize] as char }).collect()
}

fn sprinkle(rng: &mut Rng, s: &str, rate: u64) -> String {
    let mut out = String::new();
    for c in s.chars() {
        out.push(c);
        if rate > 0 && rng.below(rate) == 0 {
            out.push(SEPARATORS[rng.below(SEPARATORS.len() as u64) as usize] as char);
        }
    }
    out
}

fn sanitize(s: &str) -> String {
    s.chars().filter(|c| c.is_ascii_alphanumeric()).collect()
}

struct Placed {
    addrs: Vec<SocketAddr>,
    hour: u16,
    pw: u32,
}

/// Part A: serializer + text + file + clocks
fn serializer_scenario(l: &mut L1, seed: u64, ctx: &RunCtx) -> Result<(), Violation> {
    let _hooks = io::install_hooks(seed);
    struct Unhook;
    impl Drop for Unhook {
        fn drop(&mut self) {
            io::uninstall_hooks();
        }
    }
    let _u = Unhook;
    let mut rng = Rng::new(l.ch.seed32("material") as u64 ^ 0xbeac);
    let pw_r = l.ch.choose("reader_password", 200);
    // reader clock anywhere in the 65536 hour cycle, with emphasis on the wrap
    let hour_r: u16 = match l.ch.weighted("reader_hour", &[3, 2, 2, 1]) {
        0 => (ctx.index % 65536) as u16, // sweep: all hour stamps over a batch of 65536 runs
        1 => 65535u16.wrapping_sub(l.ch.choose("before_wrap", 60) as u16),
        2 => l.ch.choose("after_wrap", 60) as u16,
        _ => l.ch.choose("any_hour", 65536) as u16,
    };
    // hunting: the text form is a number, so its length tells how many leading zero bytes the masked data has; the
    // first beacon is written at the hour (of all 65536) that gives the shortest text
    let hunt = l.ch.chance("hunt_shortest_text", 10);
    let ttl: u16 = if hunt { 65535 } else { ttl_choice(l) };
    serializer_scenario_inner(l, seed, &mut rng, pw_r, hour_r, ttl, hunt)
}

fn ttl_choice(l: &mut L1) -> u16 {
    match l.ch.weighted("ttl", &[5, 1, 1, 1, 1]) {
        0 => 50,
        1 => 0,
        2 => 65535,
        3 => 32767 + l.ch.choose("ttl_mid", 3) as u16,
        _ => l.ch.choose("ttl_any", 65536) as u16,
    }
}

fn serializer_scenario_inner(l: &mut L1, seed: u64, rng: &mut Rng, pw_r: u32, hour_r: u16, ttl: u16, hunt: bool) -> Result<(), Violation> {
    let mut rng = Rng::new(rng.next());
    let count = 1 + l.ch.choose("beacons", 4) as usize;
    let mut placed: Vec<Placed> = vec![];
    let mut text = String::new();
    let sep_rate = *l.ch.pick("separator_rate", &[0u64, 7, 2]);
    let ser_r = Ser::new(password(pw_r).as_bytes());
    // markers of the reader's password (first and last five characters of any of its beacons)
    SimClock::set(0);
    let sample = ser_r.encode(&[]);
    let begin = sample[..5].to_string();
    let end = sample[sample.len() - 5..].to_string();
    let stray = l.ch.chance("stray_markers", 250);
    for _ in 0..count {
        let pw = if l.ch.chance("other_password", 250) { l.ch.choose("writer_password", 200) } else { pw_r };
        // writer clock relative to the reader's: inside, at the edge of, or beyond the accepted age
        let off: i32 = match l.ch.weighted("age", &[4, 3, 2, 2]) {
            0 => l.ch.choose("age_small", 11) as i32 - 5,
            1 => {
                let edge = ttl as i32;
                let d = l.ch.choose("age_edge", 5) as i32 - 2;
                if l.ch.chance("age_sign", 500) { edge + d } else { -(edge + d) }
            }
            2 => l.ch.choose("age_100", 201) as i32 - 100,
            _ => l.ch.choose("age_any", 65536) as i32,
        };
        let mut hour_w = (hour_r as i32 + off).rem_euclid(65536) as u16;
        let v4 = l.ch.weighted("v4_count", &[1, 3, 3, 2, 1, 1, 1, 1, 1]);
        let v6 = l.ch.weighted("v6_count", &[4, 2, 1, 1, 1]);
        let addrs = gen_addrs(&mut rng, v4, v6);
        if hunt && placed.is_empty() {
            let ser = Ser::new(password(pw).as_bytes());
            let mut best = (usize::MAX, hour_w);
            let mut usual = 0usize;
            for h in 0..=65535u16 {
                SimClock::set(h as i64 * 3600);
                let len = match io::guarded(|| ser.encode(&addrs)) {
                    Ok(b) => b.len(),
                    Err(p) => return Err(Violation::new("no-panic", "encode-panics", format!("encode({:?}) at hour {} panicked: {}", addrs, h, p))),
                };
                usual = usual.max(len);
                if len < best.0 {
                    best = (len, h);
                }
            }
            hour_w = best.1;
            match usual - best.0 {
                0 => l.count("c17_hunt_found_nothing_shorter"),
                1 => l.count("c17_hunt_text_shorter_by_1"),
                2 => l.count("c17_hunt_text_shorter_by_2"),
                _ => l.count("c17_hunt_text_shorter_by_3_or_more"),
            }
        }
        SimClock::set(hour_w as i64 * 3600 + l.ch.choose("minute", 3600) as i64);
        let ser_w = Ser::new(password(pw).as_bytes());
        let b = match io::guarded(|| ser_w.encode(&addrs)) {
            Ok(b) => b,
            Err(p) => return Err(Violation::new("no-panic", "encode-panics", format!("encode({:?}) panicked: {}", addrs, p))),
        };
        let pre = rng.below(40) as usize;
        text.push_str(&filler(&mut rng, pre));
        if stray && l.ch.chance("stray_here", 500) {
            // partial / overlapping markers of the reader's password in front of a beacon
            let kind = l.ch.choose("stray_kind", 7);
            let s = match kind {
                6 => {
                    // many short alphanumeric chunks between a begin and an end marker: one in 256 passes the one-byte
                    // check and is then read as a peer list whose counts have nothing to do with its length
                    let mut out = String::new();
                    for _ in 0..(20 + rng.below(40)) {
                        let n = 6 + rng.below(40) as usize;
                        let body: String = (0..n).map(|_| ALNUM[rng.below(62) as usize] as char).collect();
                        out.push_str(&format!("{}{}{} ", begin, body, end));
                    }
                    l.count("c17_bursts_of_short_chunks_between_markers");
                    out
                }
                5 => {
                    // a very long alphanumeric chunk between a begin and an end marker
                    let n = 4000 + rng.below(4000) as usize;
                    let body: String = (0..n).map(|_| ALNUM[rng.below(62) as usize] as char).collect();
                    l.count("c17_long_chunk_between_markers");
                    format!("{}{}{}", begin, body, end)
                }
                0 => begin[..1 + rng.below(4) as usize].to_string(),
                1 => end.clone(),
                2 => begin.clone(),
                3 => format!("{}{}", begin, &end[1 + rng.below(4) as usize..]),
                _ => {
                    // begin marker whose tail is the head of the end marker, if this password has such an overlap
                    let mut s = format!("{}{}", begin, end);
                    for j in 1..5 {
                        if begin[j..] == end[..5 - j] {
                            s = format!("{}{}", begin, &end[5 - j..]);
                            l.count("c17_overlapping_markers_crafted");
                            break;
                        }
                    }
                    s
                }
            };
            text.push_str(&s);
            text.push(' ');
            l.count("c17_stray_markers_placed");
        }
        text.push_str(&sprinkle(&mut rng, &b, sep_rate));
        placed.push(Placed { addrs, hour: hour_w, pw });
    }
    let tail = rng.below(40) as usize;
    text.push_str(&filler(&mut rng, tail));
    // is the text clean, i.e. are the only marker occurrences those of the placed beacons of this password?
    let clean_text = sanitize(&text);
    let mine = placed.iter().filter(|p| p.pw == pw_r || password(p.pw) == password(pw_r)).count();
    let clean = clean_text.matches(&begin).count() == mine && clean_text.matches(&end).count() == mine;
    // reference
    let mut expected: Vec<SocketAddr> = vec![];
    let mut per_beacon: Vec<Vec<SocketAddr>> = vec![];
    for p in &placed {
        if password(p.pw) == password(pw_r) && circ_dist(hour_r, p.hour) <= ttl {
            let n = normalise(&p.addrs);
            expected.extend(n.iter().copied());
            per_beacon.push(n);
        }
    }
    // through a file (with faults) or directly
    SimClock::set(hour_r as i64 * 3600 + l.ch.choose("reader_minute", 3600) as i64);
    let via_file = l.ch.chance("via_file", 400);
    let via_cmd = !via_file && l.ch.chance("via_command", 40);
    if via_cmd {
        // no age limit on this path: every beacon of the reader's password counts
        expected.clear();
        per_beacon.clear();
        for p in &placed {
            if password(p.pw) == password(pw_r) {
                let n = normalise(&p.addrs);
                expected.extend(n.iter().copied());
                per_beacon.push(n);
            }
        }
    }
    let mut text_seen = text.clone();
    let mut torn = false;
    let got: Result<Vec<SocketAddr>, String> = if via_file {
        let dir = std::path::PathBuf::from(format!("/dev/shm/vpncloud-verif-{}-{:x}", std::process::id(), seed));
        let _ = std::fs::create_dir_all(&dir);
        let path = dir.join("beacon.txt");
        let fault = l.ch.weighted("file_fault", &[5, 2, 1, 1]);
        match fault {
            0 => {
                let _ = std::fs::write(&path, text.as_bytes());
            }
            1 => {
                // torn: only a prefix made it to the file
                let cut = l.ch.choose("torn_at", text.len() as u32 + 1) as usize;
                let mut cut = cut.min(text.len());
                while !text.is_char_boundary(cut) {
                    cut -= 1;
                }
                text_seen = text[..cut].to_string();
                torn = true;
                let _ = std::fs::write(&path, text_seen.as_bytes());
                l.count("fault_file_torn");
            }
            2 => {
                let glen = 50 + rng.below(400) as usize;
                let g = rng.bytes(glen);
                let _ = std::fs::write(&path, &g);
                text_seen = String::new();
                l.count("fault_file_garbage");
            }
            _ => {
                let _ = std::fs::remove_file(&path);
                text_seen = String::new();
                l.count("fault_file_missing");
            }
        }
        let r = io::guarded(|| ser_r.read_from_file(&path, Some(ttl)));
        let _ = std::fs::remove_dir_all(&dir);
        match r {
            Ok(Ok(v)) => Ok(v),
            Ok(Err(_)) => Ok(vec![]),
            Err(p) => Err(p),
        }
    } else if via_cmd {
        // through a command, as `beacon_load = "|cmd"` does: the only place where the program under test starts a
        // real thread and a real process; the harness waits for the result, so the outcome does not depend on their
        // timing. The command's output is decoded without an age limit (the worker thread has no simulated clock).
        let dir = std::path::PathBuf::from(format!("/dev/shm/vpncloud-verif-{}-{:x}-cmd", std::process::id(), seed));
        let _ = std::fs::create_dir_all(&dir);
        let path = dir.join("beacon.txt");
        let _ = std::fs::write(&path, text.as_bytes());
        l.count("c17_loaded_through_a_command");
        let r = match ser_r.read_from_cmd(&format!("cat '{}'", path.display()), None) {
            Ok(()) => {
                let started = std::time::Instant::now();
                let mut got = None;
                while started.elapsed().as_secs() < 600 {
                    if let Some(v) = ser_r.get_cmd_results() {
                        got = Some(v);
                        break;
                    }
                    std::thread::sleep(std::time::Duration::from_millis(1));
                }
                match got {
                    Some(v) => Ok(v),
                    None => Err("the beacon command did not deliver a result within 600 s".to_string()),
                }
            }
            Err(e) => Err(format!("the beacon command could not be started: {}", e)),
        };
        let _ = std::fs::remove_dir_all(&dir);
        r
    } else {
        io::guarded(|| ser_r.decode(&text, Some(ttl)))
    };
    l.note(|| format!("markers begin={} end={} text={}", begin, end, sanitize(&text_seen)));
    l.ev(60, text_seen.as_bytes());
    l.count("c17_texts_decoded");
    l.note(|| format!("reader password #{} hour {} ttl {}; {} beacons placed (hours {:?}, passwords {:?}); clean={} torn={} file={}", pw_r, hour_r, ttl, placed.len(), placed.iter().map(|p| p.hour).collect::<Vec<_>>(), placed.iter().map(|p| p.pw).collect::<Vec<_>>(), clean, torn, via_file));
    let got = match got {
        Ok(v) => v,
        Err(p) => {
            return Err(Violation::new("no-panic", if p.contains("slice index") || p.contains("begin > end") || p.contains("begin <= end") { "extraction-panics-on-overlapping-markers" } else { "extraction-panics" }, format!("beacon extraction panicked on a {} byte text: {}", text_seen.len(), p)));
        }
    };
    if text_seen.is_empty() {
        return Ok(());
    }
    if torn {
        // whatever is recovered from a torn file is a prefix of the full result, made of whole beacons
        let mut ok = false;
        let mut acc: Vec<SocketAddr> = vec![];
        if got.is_empty() {
            ok = true;
        }
        for b in &per_beacon {
            acc.extend(b.iter().copied());
            if acc == got {
                ok = true;
            }
        }
        if clean && !ok {
            return Err(Violation::new("round-trip", "torn-file-yields-wrong-addresses", format!("a torn beacon file yielded {:?}, which is not a whole-beacon prefix of {:?}", got, expected)));
        }
        l.count("c17_torn_checked");
        return Ok(());
    }
    if clean {
        l.count("c17_clean_texts_checked");
        if !expected.is_empty() {
            l.count("c17_with_accepted_beacons");
        }
        if placed.iter().any(|p| password(p.pw) == password(pw_r) && circ_dist(hour_r, p.hour) > ttl) {
            l.count("c17_with_too_old_or_too_new_beacons");
        }
        if got != expected {
            let sig = if got.len() < expected.len() { "beacon-not-recovered" } else if expected.is_empty() { "beacon-accepted-despite-age-or-password" } else { "recovered-addresses-differ" };
            return Err(Violation::new(
                "round-trip",
                sig,
                format!("reader (password #{}, hour {}, age limit {}) extracted {:?} but the text holds beacons {:?}; expected {:?}", pw_r, hour_r, ttl, got, placed.iter().map(|p| (p.hour, p.pw, p.addrs.len())).collect::<Vec<_>>(), expected),
            ));
        }
    } else {
        // stray markers: every cleanly delimited genuine beacon is still recovered, in order
        l.count("c17_stray_texts_checked");
        let mut it = got.iter();
        for a in &expected {
            if !it.any(|g| g == a) {
                return Err(Violation::new("round-trip", "beacon-lost-next-to-stray-markers", format!("with stray markers in the text the reader extracted {:?}, which does not contain {:?} in order", got, expected)));
            }
        }
    }
    Ok(())
}

fn guard(w: &World, st: &Step) -> Result<(), Violation> {
    match panic_violation(w, st, "C17") {
        Some(v) => Err(v),
        None => Ok(()),
    }
}

/// Part B: real nodes that find each other through beacon files only
fn node_scenario(w: &mut World, _ctx: &RunCtx, states: &mut Vec<u64>) -> Result<(), Violation> {
    let k = w.add_key(None);
    let n = 2 + w.ch.choose("nodes", 3) as usize;
    let fam = w.ch.choose("addr_family", 2) as u8;
    let dir = std::path::PathBuf::from(format!("/dev/shm/vpncloud-verif-{}-{:x}", std::process::id(), w.seed));
    let _ = std::fs::create_dir_all(&dir);
    w.scratch = Some(dir.clone());
    // the clock of the run starts anywhere in the hour cycle, sometimes right before the wrap
    w.epoch_s = match w.ch.weighted("epoch", &[2, 2, 1]) {
        0 => 1_000_000,
        1 => 65536 * 3600 - 600 - w.ch.choose("before_wrap_s", 3000) as i64,
        _ => w.ch.choose("epoch_hour", 65536) as i64 * 3600,
    };
    let interval = *w.ch.pick("beacon_interval", &[5u32, 1, 30, 120]);
    let mut pws = vec![];
    for i in 0..n {
        let mut c = mesh::tun_node(i);
        c.key = k;
        let pw = w.ch.choose("beacon_password", 3);
        pws.push(pw);
        c.beacon_password = Some(password(pw + 1));
        c.beacon_store = Some(dir.join(format!("store{}", i)).to_string_lossy().to_string());
        c.beacon_load = Some(dir.join(format!("load{}", i)).to_string_lossy().to_string());
        c.beacon_interval = interval;
        // clock skew in hours: inside and outside the accepted age
        c.skew_s = match w.ch.weighted("skew", &[4, 2, 1]) {
            0 => 0,
            1 => (w.ch.choose("skew_h", 81) as i64 - 40) * 3600,
            _ => (w.ch.choose("skew_far_h", 2) as i64 * 2 - 1) * (60 + w.ch.choose("skew_far", 100) as i64) * 3600,
        };
        c.tick_phase_ms = w.ch.choose("tick_phase", 1000) as u64;
        let adv = w.ch.choose("advertised", 4);
        for a in 0..adv {
            c.advertise.push(format!("203.0.113.{}:{}", 1 + i * 10 + a as usize, 3210));
        }
        w.add_node(c, fam);
    }
    for i in 0..n {
        let st = w.start_node(i);
        guard(w, &st)?;
    }
    let mut rng = Rng::new(w.ch.seed32("publisher") as u64);
    // what each node last stored: (addrs, hour, password)
    let mut stored: Vec<Option<(Vec<SocketAddr>, u16, u32)>> = vec![None; n];
    // what the publisher last put into each node's load file (list of writer indices, in text order)
    let mut published: Vec<Vec<(Vec<SocketAddr>, u16, u32)>> = vec![vec![]; n];
    let total_ms = (2 * interval as u64 + 240 + 300 + 30) * 1000;
    let mut next_publish = 0u64;
    while let Some(st) = w.step(total_ms) {
        guard(w, &st)?;
        let i = match st.node {
            Some(i) => i,
            None => continue,
        };
        for ev in &st.probes {
            match ev {
                Event::BeaconStored { addrs } => {
                    let hour = ((w.node_now_s(i) / 3600) & 0xffff) as u16;
                    stored[i] = Some((addrs.clone(), hour, pws[i]));
                    w.count("c17_beacons_stored");
                }
                Event::BeaconLoaded { addrs } => {
                    // reference: the beacons the publisher put into this node's load file
                    let hour_r = ((w.node_now_s(i) / 3600) & 0xffff) as u16;
                    let mut expected = vec![];
                    for (a, h, p) in &published[i] {
                        if *p == pws[i] && circ_dist(hour_r, *h) <= 50 {
                            expected.extend(normalise(a));
                        }
                    }
                    w.count("c17_beacon_loads_checked");
                    if !expected.is_empty() {
                        w.count("c17_loads_with_accepted_beacons");
                    }
                    if *addrs != expected {
                        return Err(Violation::new(
                            "round-trip",
                            if addrs.len() < expected.len() { "node-did-not-load-published-beacon" } else { "node-loaded-beacon-it-should-ignore" },
                            format!("n{} (password #{}, hour {}) loaded {:?} from its beacon file; the file holds {:?}; expected {:?}", i, pws[i], hour_r, addrs, published[i].iter().map(|(a, h, p)| (a.len(), *h, *p)).collect::<Vec<_>>(), expected),
                        ));
                    }
                }
                _ => {}
            }
        }
        // the publisher: copies what the nodes stored into every other node's load file, inside other text
        if w.now_ms >= next_publish {
            next_publish = w.now_ms + 700;
            for j in 0..n {
                let flen = 10 + rng.below(30) as usize;
                let mut text = filler(&mut rng, flen);
                let mut list = vec![];
                for i2 in 0..n {
                    if i2 == j {
                        continue;
                    }
                    if let Some((a, h, p)) = &stored[i2] {
                        let path = dir.join(format!("store{}", i2));
                        if let Ok(content) = std::fs::read_to_string(&path) {
                            text.push(' ');
                            text.push_str(content.trim());
                            text.push(' ');
                            let flen = rng.below(20) as usize;
                            text.push_str(&filler(&mut rng, flen));
                            list.push((a.clone(), *h, *p));
                        }
                    }
                }
                let _ = std::fs::write(dir.join(format!("load{}", j)), text.as_bytes());
                published[j] = list;
            }
        }
    }
    states.push(mesh::abstract_state(w));
    // nodes with a common password and clocks within the accepted age found each other
    for a in 0..n {
        for b in 0..a {
            let close = ((w.nodes[a].cfg.skew_s - w.nodes[b].cfg.skew_s).abs() / 3600) <= 48;
            if pws[a] == pws[b] && close {
                w.count("c17_pairs_expected_to_meet");
                if !(w.is_connected(a, b) && w.is_connected(b, a)) {
                    return Err(Violation::new("beacon-discovery", "nodes-with-common-beacon-password-did-not-meet", format!("n{} and n{} share the beacon password and their clocks differ by {} h, yet they are not connected after {} s{}", a, b, (w.nodes[a].cfg.skew_s - w.nodes[b].cfg.skew_s) / 3600, total_ms / 1000, mesh::dump_state(w))));
                }
            }
        }
    }
    Ok(())
}

impl Scenario for C17 {
    fn id(&self) -> &'static str {
        "C17"
    }

    fn run(&self, seed: u64, ch: Chooser, ctx: &RunCtx) -> RunOut {
        if ctx.index % 8 == 7 {
            let mut w = mesh::new_world(seed, ch, ctx);
            let mut states = vec![];
            let res = node_scenario(&mut w, ctx, &mut states);
            let nontrivial = w.counters.get("c17_beacon_loads_checked").copied().unwrap_or(0) > 0;
            return finish(w, res, nontrivial, states);
        }
        let mut l = L1::new(ch, ctx);
        let res = serializer_scenario(&mut l, seed, ctx);
        let nt = l.counters.get("c17_texts_decoded").copied().unwrap_or(0) > 0;
        l.finish(res, nt)
    }

    fn budget(&self, tier: Tier) -> (u64, u64) {
        match tier {
            Tier::Quick => (24_000, 120),
            Tier::Thorough => (8 * 65536 / 7 * 4 + 65536, 1500),
        }
    }

    fn rule(&self) -> &'static str {
        "7/8 of the runs (serializer, clocks, file): 1-4 beacons made by the real BeaconSerializer for address lists of 0-8 IPv4 and 0-4 IPv6 entries at writer clocks inside, at the edge of and beyond the reader's age limit (limit 50 as in the node, 0, 65535, around 32768, any), 200 passwords incl. empty; the reader's hour follows the run index (all 65536 hour stamps over a thorough batch) or sits right before/after the 16 bit wrap; beacons are embedded in random alphanumeric/separator text, optionally with separators inside the beacon and with stray / partial / overlapping begin and end markers; the text is decoded directly or through a file that may be torn at any byte, replaced by garbage or missing. Oracle: clean texts: extracted list = concatenation, in order, of the address lists (IPv4 first) of the beacons with the reader's password and circular hour distance <= limit; torn files: a whole-beacon prefix of that; stray markers: every genuine beacon is still recovered in order; no unwind on any text. 1/8 of the runs (nodes): 2-5 real nodes without configured peers, each storing its beacon to a file and loading from another; a publisher actor copies the stored beacons into the others' load files inside filler text; clocks start anywhere in the hour cycle (also minutes before the wrap) with skews up to +-160 h, three beacon passwords; oracle: every BeaconLoaded probe equals the reference over the file's content, and nodes with a common password and clocks within 48 h are connected after 2 intervals + 570 s."
    }

    fn expected_probes(&self) -> Vec<&'static str> {
        vec!["c17_clean_texts_checked", "c17_with_accepted_beacons", "c17_with_too_old_or_too_new_beacons", "c17_stray_texts_checked", "c17_overlapping_markers_crafted", "c17_long_chunk_between_markers", "c17_torn_checked", "fault_file_garbage", "fault_file_missing", "c17_beacon_loads_checked", "c17_loads_with_accepted_beacons", "c17_pairs_expected_to_meet"]
    }
}
