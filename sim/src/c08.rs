//! C08 - no datagram from an outsider can crash a node
use std::net::SocketAddr;

use super::{
    chooser::Chooser,
    mesh::{self, finish, panic_violation},
    rng::Rng,
    runner::{RunCtx, RunOut, Scenario, Tier, Violation},
    world::{Origin, Step, StepKind, World},
};
use crate::verif::NodeSnapshot;

pub struct C08;

pub const STATES: [&str; 7] =
    ["unknown-sender", "pending-initiator", "pending-responder", "established-lingering", "established", "established-plain", "closing-boundary"];

pub fn snap_equal_ignoring_counters(a: &NodeSnapshot, b: &NodeSnapshot) -> Option<String> {
    if a.peers != b.peers {
        return Some(format!("peers changed: {:?} -> {:?}", a.peers.iter().map(|p| (p.addr, p.init_stage, p.current_key)).collect::<Vec<_>>(), b.peers.iter().map(|p| (p.addr, p.init_stage, p.current_key)).collect::<Vec<_>>()));
    }
    if a.pending != b.pending {
        return Some(format!("pending handshakes changed: {:?} -> {:?}", a.pending, b.pending));
    }
    // the count of unanswered repetitions is what lets a handshake that gets no valid answer time out
    if a.pending_retries != b.pending_retries {
        return Some(format!("retry counters of pending handshakes changed: {:?} -> {:?}", a.pending_retries, b.pending_retries));
    }
    if a.table != b.table {
        return Some("claim table changed".to_string());
    }
    if a.own_addresses != b.own_addresses {
        return Some("own addresses changed".to_string());
    }
    if a.reconnect != b.reconnect {
        return Some("reconnect entries changed".to_string());
    }
    None
}

/// A structured short datagram: chosen first byte, random body
fn structured(rng: &mut Rng, len: usize, first: u8) -> Vec<u8> {
    let mut v = rng.bytes(len);
    if len > 0 {
        v[0] = first;
    }
    v
}

pub const FIRST_BYTES: [u8; 16] = [0xff, 0, 1, 2, 3, 4, 5, 6, 7, 0x10, 0xfe, 0x80, 0x81, 0x82, 0x83, 0x7f];

/// Corrupts a length field of a handshake datagram (0xff, 4 salt, 4 hash, TLVs (type, u16 len, data), 0, siglen, sig)
pub fn corrupt_length_field(rng: &mut Rng, data: &[u8], pick: u32, newval: u32) -> Vec<u8> {
    let mut v = data.to_vec();
    if v.len() > 12 && v[0] == 0xff {
        // walk the TLVs
        let mut pos = 9;
        let mut fields = vec![];
        while pos + 3 <= v.len() {
            if v[pos] == 0 {
                fields.push((pos + 1, 1usize)); // signature length byte
                break;
            }
            fields.push((pos + 1, 2usize));
            let l = u16::from_be_bytes([v[pos + 1], v[pos + 2]]) as usize;
            pos += 3 + l;
        }
        if !fields.is_empty() {
            let (p, w) = fields[pick as usize % fields.len()];
            if w == 2 && p + 1 < v.len() {
                let nv = match newval % 6 {
                    0 => 0u16,
                    1 => 0xffff,
                    2 => (v.len() as u16).wrapping_sub(p as u16),
                    3 => u16::from_be_bytes([v[p], v[p + 1]]).wrapping_add(1),
                    4 => u16::from_be_bytes([v[p], v[p + 1]]).wrapping_sub(1),
                    _ => rng.next() as u16,
                };
                v[p..p + 2].copy_from_slice(&nv.to_be_bytes());
            } else if p < v.len() {
                v[p] = match newval % 4 {
                    0 => 0,
                    1 => 0xff,
                    2 => v[p].wrapping_add(1),
                    _ => rng.next() as u8,
                };
            }
            return v;
        }
    }
    // sealed datagram or anything else: alter one of the first 8 bytes (key id / counter) or a random one
    if !v.is_empty() {
        let p = if pick % 2 == 0 { (pick as usize / 2) % v.len().min(8) } else { rng.below(v.len() as u64) as usize };
        v[p] ^= 1 << (newval % 8);
    }
    v
}

fn scenario(w: &mut World, ctx: &RunCtx, states: &mut Vec<u64>) -> Result<(), Violation> {
    let state = (ctx.index % 7) as usize;
    let sweep_len = ((ctx.index / 7) % 81) as usize;
    w.count(match state {
        0 => "c08_state_unknown_sender",
        1 => "c08_state_pending_initiator",
        2 => "c08_state_pending_responder",
        3 => "c08_state_established_lingering",
        4 => "c08_state_established",
        5 => "c08_state_established_plain",
        _ => "c08_state_closing_boundary",
    });
    let k = w.add_key(None);
    let three = w.ch.chance("third_node", 300);
    let n_nodes = if three { 3 } else { 2 };
    let fam = w.ch.choose("addr_family", 2) as u8;
    let tap = w.ch.chance("tap", 300);
    for i in 0..n_nodes {
        let mut c = if tap { mesh::tap_node(i) } else { mesh::tun_node(i) };
        c.key = k;
        if state == 5 {
            c.algorithms = vec!["plain".to_string()];
        } else if w.ch.chance("cipher_list", 300) {
            c.algorithms = vec![["aes128", "aes256", "chacha20"][w.ch.choose("cipher", 3) as usize].to_string()];
        }
        w.add_node(c, fam);
    }
    let x_addr = mesh::unknown_addr(1);
    let y_addr = mesh::unknown_addr(2);
    // who dials: the lingering handshake sits at the initiator for 60 s
    let victim_dials = match state {
        2 => false,
        3 | 6 => true,
        _ => w.ch.chance("victim_dials", 500),
    };
    if victim_dials {
        let p = mesh::peer_text(w, 1);
        w.nodes[0].cfg.peers.push(p);
    } else {
        let p = mesh::peer_text(w, 0);
        w.nodes[1].cfg.peers.push(p);
    }
    if three {
        let p = mesh::peer_text(w, 0);
        w.nodes[2].cfg.peers.push(p);
    }
    if state == 1 {
        w.nodes[0].cfg.peers.push(super::world::addr_text(x_addr));
    }
    for i in 0..n_nodes {
        let st = w.start_node(i);
        if let Some(v) = panic_violation(w, &st, "C08") {
            return Err(v);
        }
    }
    let mut pairs = vec![(0, 1), (1, 0)];
    if three {
        pairs.push((0, 2));
        pairs.push((2, 0));
    }
    let ok = mesh::run_until_connected(w, &pairs, 8_000, |w, st| match panic_violation(w, st, "C08") {
        Some(v) => Err(v),
        None => Ok(()),
    })?;
    if !ok {
        // establishment itself is C05's subject; here it only means the run is vacuous
        w.count("c08_not_established");
        return Ok(());
    }
    // recorded genuine datagrams so far
    if state == 1 {
        let has = w.snapshot(0).map(|s| s.pending.iter().any(|(a, _)| *a == x_addr)).unwrap_or(false);
        if has {
            w.count("c08_pending_initiator_present");
        }
    }
    if state == 2 {
        // replay n1's ping from X: creates a pending responder entry at the victim
        let ping = w.wire.iter().find(|r| r.from_node == Some(1) && r.dst == w.nodes[0].addr && World::is_init_datagram(&r.data)).map(|r| (*r.data).clone());
        if let Some(ping) = ping {
            let dst = w.nodes[0].addr;
            w.inject(x_addr, dst, ping, 1, "setup-replayed-ping");
            let until = w.now_ms + 50;
            w.run_until(until, |w, st| match panic_violation(w, st, "C08") {
                Some(v) => Err(v),
                None => Ok(()),
            })?;
        }
        let has = w.snapshot(0).map(|s| s.pending.iter().any(|(a, _)| *a == x_addr)).unwrap_or(false);
        if has {
            w.count("c08_pending_responder_created");
        }
    }
    // some genuine traffic so that data/node-info/rotation datagrams are recorded
    let mut counter = 0u32;
    let mut send_probe = |w: &mut World, from: usize, to: usize, at: u64| {
        counter += 1;
        let m = mesh::marker(w, counter);
        let f = if tap { mesh::eth_frame(mesh::mac(to), mesh::mac(from), &[], &m) } else { mesh::ipv4_packet(mesh::tun_ip(from), mesh::tun_ip(to), &m) };
        w.schedule_frame(at, from, f);
    };
    let now = w.now_ms;
    send_probe(w, 0, 1, now + 10);
    send_probe(w, 1, 0, now + 20);
    // attack start
    let wait_ms = match state {
        3 => w.ch.choose("wait_ms", 50_000) as u64,
        4 => 62_000 + w.ch.choose("wait_ms", 120_000) as u64,
        6 => 57_000 + w.ch.choose("wait_ms", 6_000) as u64,
        _ => w.ch.choose("wait_ms", 5_000) as u64,
    };
    let until = w.now_ms + wait_ms;
    w.run_until(until, |w, st| match panic_violation(w, st, "C08") {
        Some(v) => Err(v),
        None => Ok(()),
    })?;
    states.push(mesh::abstract_state(w));
    let count = 1 + w.ch.choose("datagrams", 50);
    let mut replayed_handshake_from_peer = false;
    let mut body_rng = Rng::new(w.ch.seed32("body_seed") as u64);
    let victim_addr = w.nodes[0].addr;
    let peer_addr = w.nodes[1].addr;
    for i in 0..count {
        // source address
        let main_src: SocketAddr = match state {
            0 => y_addr,
            1 | 2 => x_addr,
            _ => peer_addr,
        };
        let src = match w.ch.weighted("src", &[8, 1, 1, 1]) {
            0 => main_src,
            1 => y_addr,
            2 => peer_addr,
            _ => x_addr,
        };
        // datagram
        let recorded: Vec<usize> = (0..w.wire.len()).filter(|i| w.wire[*i].from_node.is_some() && matches!(w.wire[*i].origin, Origin::Genuine)).collect();
        let kind = if i == 0 { 0 } else { w.ch.weighted("kind", &[4, 3, 3, 1, 2]) };
        let mut verbatim_of: Option<usize> = None;
        let (data, tag): (Vec<u8>, &'static str) = match kind {
            0 => {
                let len = if i == 0 { sweep_len } else { w.ch.choose("len", 81) as usize };
                let first = if i == 0 { FIRST_BYTES[((ctx.index / 567) % 16) as usize] } else { *w.ch.pick("first", &FIRST_BYTES) };
                (structured(&mut body_rng, len, first), "structured")
            }
            1 if !recorded.is_empty() => {
                let r = *w.ch.pick("rec", &recorded);
                let d = w.wire[r].data.clone();
                let len = w.ch.choose("trunc", d.len() as u32 + 1) as usize;
                if len == d.len() {
                    verbatim_of = Some(r);
                }
                (d[..len].to_vec(), "truncated-genuine")
            }
            2 if !recorded.is_empty() => {
                let r = *w.ch.pick("rec", &recorded);
                let d = w.wire[r].data.clone();
                let pick = w.ch.choose("field", 16);
                let nv = w.ch.choose("newval", 8);
                let c = corrupt_length_field(&mut body_rng, &d, pick, nv);
                // an edit that leaves the datagram unchanged is a replay of genuine content and not a forgery
                if c == *d {
                    verbatim_of = Some(r);
                }
                (c, "length-corrupted-genuine")
            }
            3 => {
                let len = match w.ch.choose("biglen", 4) {
                    0 => 65535,
                    1 => 65507,
                    2 => 1 + body_rng.below(65535) as usize,
                    _ => 1400 + body_rng.below(200) as usize,
                };
                let first = *w.ch.pick("first", &FIRST_BYTES);
                (structured(&mut body_rng, len, first), "random-large")
            }
            4 if !recorded.is_empty() => {
                let r = *w.ch.pick("rec", &recorded);
                verbatim_of = Some(r);
                ((*w.wire[r].data).clone(), "verbatim-wrong-party")
            }
            _ => (structured(&mut body_rng, w.ch.choose("len", 81) as usize, *w.ch.pick("first", &FIRST_BYTES)), "structured"),
        };
        // verbatim genuine datagrams: only from the wrong party, and never a handshake message from a
        // peer's address (validly signed content is the subject of C09)
        let mut check_state = state != 5; // plain mode authenticates nothing after the handshake
        let mut src = src;
        if let Some(r) = verbatim_of {
            let rec = &w.wire[r];
            if src == rec.src && victim_addr == rec.dst {
                src = y_addr;
            }
            if World::is_init_datagram(&data) && src == peer_addr {
                src = y_addr;
            }
        }
        let is_init = World::is_init_datagram(&data);
        w.count(match tag {
            "structured" => "c08_sent_structured",
            "truncated-genuine" => "c08_sent_truncated",
            "length-corrupted-genuine" => "c08_sent_length_corrupted",
            "random-large" => "c08_sent_random_large",
            _ => "c08_sent_verbatim_wrong_party",
        });
        let delay = w.ch.weighted("gap", &[6, 2, 1]) as u64;
        let delay = match delay {
            0 => 0,
            1 => w.ch.choose("gap_ms", 400) as u64,
            _ => 400 + w.ch.choose("gap_ms", 1200) as u64,
        };
        let dlen = data.len();
        let first_byte = data.first().copied();
        let id = w.inject(src, victim_addr, data, delay, tag);
        w.note(|| format!("adversary sends {} ({} bytes, first byte {:?}) to n0 from {}", tag, dlen, first_byte, src));
        w.snap_before = Some(id);
        w.pre_snapshot = None;
        let _ = verbatim_of;
        // interleave genuine traffic sometimes
        if w.ch.chance("genuine_traffic", 150) {
            let at = w.now_ms + w.ch.choose("traffic_at", 300) as u64;
            if w.ch.chance("dir", 500) {
                send_probe(w, 0, 1, at);
            } else {
                send_probe(w, 1, 0, at);
            }
        }
        let until = w.now_ms + delay;
        let mut result = Ok(());
        // is the datagram, as the victim will parse it (with the stale tail of its receive buffer), validly
        // signed by a key the victim trusts? Then it is a replay of genuine content, not a forgery.
        let mut signed = false;
        loop {
            if is_init && w.peek_is_delivery_of(id) {
                let eff = w.effective_datagram(0, &w.wire[id].data.clone());
                let keys = w.trusted_key_bytes(0);
                signed = super::refmodel::verify_handshake(&eff, &keys).is_some();
                if signed {
                    w.count("c08_effectively_signed_replay");
                    if w.wire[id].src == peer_addr {
                        // a replayed genuine handshake message from an established peer's address is C09's subject
                        replayed_handshake_from_peer = true;
                    }
                }
            }
            let st = match w.step(until) {
                Some(st) => st,
                None => break,
            };
            if let Some(v) = panic_violation(w, &st, "C08") {
                return Err(v);
            }
            if let StepKind::Deliver { wire, accepted: true, .. } = st.kind {
                if wire == id {
                    result = check_after(w, &st, id, check_state && !signed, tag);
                }
            }
            if result.is_err() {
                break;
            }
        }
        result?;
        if !w.is_up(0) {
            break;
        }
    }
    states.push(mesh::abstract_state(w));
    // afterwards: the nodes are alive and a genuine probe still crosses the connection
    let until = w.now_ms + 2_500;
    w.run_until(until, |w, st| match panic_violation(w, st, "C08") {
        Some(v) => Err(v),
        None => Ok(()),
    })?;
    for n in 0..n_nodes {
        if !w.is_up(n) {
            return Err(Violation::new("node-alive", "node-dead-after-attack", format!("node n{} is not running after the attack", n)));
        }
    }
    if replayed_handshake_from_peer {
        w.count("c08_liveness_exempt_replayed_handshake");
    }
    if state != 5 && w.is_connected(0, 1) && w.is_connected(1, 0) {
        let first = w.dev_writes.len();
        let now = w.now_ms;
        send_probe(w, 0, 1, now + 1);
        send_probe(w, 1, 0, now + 2);
        let until = w.now_ms + 400;
        w.run_until(until, |w, st| match panic_violation(w, st, "C08") {
            Some(v) => Err(v),
            None => Ok(()),
        })?;
        let got0 = w.dev_writes[first..].iter().any(|d| d.node == 0);
        let got1 = w.dev_writes[first..].iter().any(|d| d.node == 1);
        w.count("c08_liveness_checked");
        if !(got0 && got1) {
            return Err(Violation::new(
                "still-live",
                "probe-lost-after-attack",
                format!("after the attack a genuine probe frame no longer crosses the established connection (n0 got {}, n1 got {})", got0, got1),
            ));
        }
    } else {
        w.count("c08_not_connected_at_end");
    }
    Ok(())
}

fn check_after(w: &mut World, st: &Step, id: usize, check_state: bool, tag: &'static str) -> Result<(), Violation> {
    w.count("c08_delivered");
    if check_state && st.writes > 0 {
        return Err(Violation::new("no-delivery", format!("device-write-from-{}", tag), format!("a {} datagram from the adversary caused a device write", tag)));
    }
    if !check_state {
        return Ok(());
    }
    let pre = w.pre_snapshot.take();
    let post = w.snapshot(0);
    if let (Some(pre), Some(post)) = (pre, post) {
        if pre.next_housekeep != post.next_housekeep {
            w.count("c08_state_check_skipped_housekeeping");
            return Ok(());
        }
        w.count("c08_state_compared");
        if let Some(diff) = snap_equal_ignoring_counters(&pre, &post) {
            let _ = id;
            return Err(Violation::new("no-state", format!("state-changed-by-{}", tag), format!("a {} datagram that cannot verify changed node state: {}", tag, diff)));
        }
        if post.dropped_in_packets == pre.dropped_in_packets {
            w.count("c08_not_counted_invalid");
        }
    }
    Ok(())
}

impl Scenario for C08 {
    fn id(&self) -> &'static str {
        "C08"
    }

    fn run(&self, seed: u64, ch: Chooser, ctx: &RunCtx) -> RunOut {
        let mut w = mesh::new_world(seed, ch, ctx);
        let mut states = vec![];
        let res = scenario(&mut w, ctx, &mut states);
        let nontrivial = w.counters.get("c08_delivered").copied().unwrap_or(0) > 0;
        finish(w, res, nontrivial, states)
    }

    fn budget(&self, tier: Tier) -> (u64, u64) {
        match tier {
            // 7 states x 81 lengths x 16 first bytes = 9072 cells: one sweep in quick
            Tier::Quick => (9072, 90),
            Tier::Thorough => (9072 * 40, 900),
        }
    }

    fn rule(&self) -> &'static str {
        "run i takes victim state i%7, first datagram length (i/7)%81 and first byte (i/567)%16 (full grid every 9072 runs), everything else (up to 50 datagrams: structured short, truncated / length-corrupted / verbatim-from-wrong-party recorded datagrams, random up to 65535 bytes; gaps, source addresses, interleaved genuine traffic) from the seed; a run is non-trivial when at least one adversary datagram was handled by the victim; distinct = distinct hashes of the sequence of (event kind, node, datagram length class) over the run"
    }

    fn level(&self) -> &'static str {
        "fault_enumeration"
    }

    fn expected_probes(&self) -> Vec<&'static str> {
        vec!["c08_state_compared", "c08_pending_responder_created", "c08_pending_initiator_present", "c08_liveness_checked", "c08_sent_random_large", "c08_sent_length_corrupted", "c08_sent_truncated"]
    }

    fn exhaustive(&self, _tier: Tier, runs: u64) -> bool {
        let _ = runs;
        false
    }
}
