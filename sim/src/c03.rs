//! C03 - pair level scenarios in l1.rs; node level (replay k housekeeping rounds after the first delivery) here
use std::collections::BTreeMap;

use super::{
    chooser::Chooser,
    l1,
    mesh::{self, finish, panic_violation},
    runner::{RunCtx, RunOut, Scenario, Tier, Violation},
    world::{Cause, Origin, Step, StepKind, World},
};

struct Ns {
    /// housekeeping rounds seen per node
    hk: Vec<u64>,
    next_hk: Vec<Option<i64>>,
    /// wire id -> (receiving node, rounds of that node before the step, frames written)
    deliveries: BTreeMap<usize, Vec<(usize, u64, usize)>>,
}

fn after(w: &mut World, s: &mut Ns, st: &Step) -> Result<(), Violation> {
    if let Some(v) = panic_violation(w, st, "C03") {
        return Err(v);
    }
    let i = match st.node {
        Some(i) => i,
        None => return Ok(()),
    };
    if let StepKind::Deliver { wire, accepted: true, .. } = st.kind {
        s.deliveries.entry(wire).or_default().push((i, s.hk[i], st.writes));
    }
    // the datagram of a step is handled before the housekeeping of the same step
    let nh = w.snapshot(i).map(|x| x.next_housekeep);
    if let (Some(a), Some(b)) = (s.next_hk[i], nh) {
        if a != b {
            s.hk[i] += 1;
        }
    }
    s.next_hk[i] = nh;
    Ok(())
}

fn drive(w: &mut World, s: &mut Ns, until: u64) -> Result<(), Violation> {
    while let Some(st) = w.step(until) {
        after(w, s, &st)?;
    }
    Ok(())
}

/// Node level: every captured data datagram is replayed k = 0..5 housekeeping rounds after its first delivery; a
/// replayed first handshake message (which anybody can replay, and which opens a handshake next to the established
/// connection) must not stop the window from moving.
fn node_scenario(w: &mut World, _ctx: &RunCtx, states: &mut Vec<u64>) -> Result<(), Violation> {
    let k = w.add_key(None);
    let fam = w.ch.choose("addr_family", 2) as u8;
    let cipher = *w.ch.pick("cipher", &["aes128", "aes256", "chacha20"]);
    for i in 0..2 {
        let mut c = mesh::tun_node(i);
        c.key = k;
        c.algorithms = vec![cipher.to_string()];
        c.tick_phase_ms = w.ch.choose("tick_phase", 1000) as u64;
        if i == 1 {
            c.peers.push(mesh::node_text(0, fam));
        }
        // a periodic task of the housekeeping round that fails every time (a beacon file that does not exist) must
        // not keep the replay windows from moving
        if w.ch.chance("failing_housekeeping_task", 300) {
            c.beacon_load = Some("/nonexistent/vpncloud-verif/beacon".to_string());
            c.beacon_interval = 1;
            w.count("c03_nodes_with_failing_housekeeping_task");
        }
        w.add_node(c, fam);
    }
    let mut s = Ns { hk: vec![0; 2], next_hk: vec![None; 2], deliveries: BTreeMap::new() };
    // half-open connections: the initiator's last handshake message is lost for a while, so node 1 is connected
    // and sends payload while node 0 still waits; whatever node 0 makes of that payload, the window rule holds
    let half_open = w.ch.chance("half_open_connection", 200);
    if half_open {
        w.drop_stage = Some((1, 3, 10_000 + w.ch.choose("half_open_ms", 80_000) as u64));
        w.count("c03_half_open_connections");
    }
    for i in 0..2 {
        let st = w.start_node(i);
        after(w, &mut s, &st)?;
    }
    if half_open {
        // traffic and replays while the handshake is open at node 0
        let until = w.now_ms + 1_500;
        drive(w, &mut s, until)?;
        let mut counter = 1000u32;
        let rounds = 3 + w.ch.choose("half_open_ops", 6);
        for _ in 0..rounds {
            if !w.is_connected(1, 0) {
                break;
            }
            counter += 1;
            let m = mesh::marker(w, counter);
            let f = mesh::ipv4_packet(mesh::tun_ip(1), mesh::tun_ip(0), &m);
            let first_wire = w.wire.len();
            let at = w.now_ms + 1 + w.ch.choose("gap_ms", 900) as u64;
            w.schedule_frame(at, 1, f);
            drive(w, &mut s, at + 80)?;
            let id = match (first_wire..w.wire.len()).find(|id| {
                let r = &w.wire[*id];
                r.from_node == Some(1) && matches!(r.cause, Cause::Dev(_)) && matches!(r.origin, Origin::Genuine) && !World::is_init_datagram(&r.data)
            }) {
                Some(id) => id,
                None => continue,
            };
            let first = s.deliveries.get(&id).and_then(|v| v.iter().find(|d| d.0 == 0 && d.2 > 0)).copied();
            let k_rounds = w.ch.choose("rounds_before_replay", 6) as u64;
            let until = w.now_ms + k_rounds * 2000 + w.ch.choose("replay_phase_ms", 2000) as u64;
            drive(w, &mut s, until)?;
            let data = (*w.wire[id].data).clone();
            let (src, dst) = (w.wire[id].src, w.wire[id].dst);
            let rid = w.inject(src, dst, data, 1, "replayed-data");
            let until = w.now_ms + 60;
            drive(w, &mut s, until)?;
            if let (Some(first), Some((_, rounds_before, writes))) = (first, s.deliveries.get(&rid).and_then(|v| v.iter().find(|d| d.0 == 0)).copied()) {
                let rounds = rounds_before - first.1;
                w.count("c03_node_level_replays_checked");
                if rounds >= 2 && writes > 0 {
                    return Err(Violation::new("replay-window", "replay-delivered-after-two-rounds", format!("n0, whose handshake was still open, wrote the payload of a datagram to its interface again that was replayed {} housekeeping rounds after its first delivery (cipher {})", rounds, cipher)));
                }
            }
        }
    }
    let mut err = None;
    let ok = mesh::run_until_connected(w, &[(0, 1), (1, 0)], 8_000, |w, st| after(w, &mut s, st)).unwrap_or_else(|e| {
        err = Some(e);
        false
    });
    if let Some(e) = err {
        return Err(e);
    }
    if !ok {
        w.count("c03_node_level_not_connected");
        return Ok(());
    }
    let until = w.now_ms + 1_500 + w.ch.choose("settle_ms", 70_000) as u64;
    drive(w, &mut s, until)?;
    states.push(mesh::abstract_state(w));
    // the first handshake message node 1 sent to node 0
    let ping: Option<Vec<u8>> = w.wire.iter().find(|r| r.from_node == Some(1) && matches!(r.origin, Origin::Genuine) && World::is_init_datagram(&r.data)).map(|r| (*r.data).clone());
    let ops = 4 + w.ch.choose("ops", 12);
    let mut counter = 0u32;
    for _ in 0..ops {
        let (a, b) = if w.ch.chance("reverse_direction", 500) { (0, 1) } else { (1, 0) };
        if !(w.is_connected(a, b) && w.is_connected(b, a)) {
            break;
        }
        counter += 1;
        let m = mesh::marker(w, counter);
        let f = mesh::ipv4_packet(mesh::tun_ip(a), mesh::tun_ip(b), &m);
        let first_wire = w.wire.len();
        let at = w.now_ms + 1 + w.ch.choose("gap_ms", 900) as u64;
        w.schedule_frame(at, a, f.clone());
        drive(w, &mut s, at + 80)?;
        let id = match (first_wire..w.wire.len()).find(|id| {
            let r = &w.wire[*id];
            r.from_node == Some(a) && matches!(r.cause, Cause::Dev(_)) && matches!(r.origin, Origin::Genuine) && !World::is_init_datagram(&r.data)
        }) {
            Some(id) => id,
            None => continue,
        };
        let first = match s.deliveries.get(&id).and_then(|v| v.iter().find(|d| d.0 == b && d.2 > 0)).copied() {
            Some(d) => d,
            None => continue,
        };
        // fault: the captured first handshake message, replayed to node 0 from node 1's address
        if b == 0 && w.ch.chance("replayed_first_handshake_message", 300) {
            if let Some(p) = &ping {
                let (src, dst) = (w.nodes[1].addr, w.nodes[0].addr);
                let delay = 1 + w.ch.choose("ping_delay_ms", 1500) as u64;
                w.inject(src, dst, p.clone(), delay, "replayed-handshake-ping");
                w.count("c03_replayed_handshake_pings");
            }
        }
        let k_rounds = w.ch.choose("rounds_before_replay", 6) as u64;
        let until = w.now_ms + k_rounds * 2000 + w.ch.choose("replay_phase_ms", 2000) as u64;
        drive(w, &mut s, until)?;
        let data = (*w.wire[id].data).clone();
        let (src, dst) = (w.wire[id].src, w.wire[id].dst);
        let rid = w.inject(src, dst, data, 1, "replayed-data");
        let until = w.now_ms + 60;
        drive(w, &mut s, until)?;
        if let Some((_, rounds_before, writes)) = s.deliveries.get(&rid).and_then(|v| v.iter().find(|d| d.0 == b)).copied() {
            let rounds = rounds_before - first.1;
            w.count("c03_node_level_replays_checked");
            if rounds >= 2 {
                w.count("c03_node_level_replays_after_two_rounds");
                if writes > 0 {
                    return Err(Violation::new("replay-window", "replay-delivered-after-two-rounds", format!("n{} wrote the payload of a datagram to its interface again that was replayed {} housekeeping rounds after its first delivery (cipher {})", b, rounds, cipher)));
                }
            }
        }
    }
    states.push(mesh::abstract_state(w));
    Ok(())
}

fn node_level(seed: u64, ch: Chooser, ctx: &RunCtx) -> RunOut {
    let mut w = mesh::new_world(seed, ch, ctx);
    let mut states = vec![];
    let res = node_scenario(&mut w, ctx, &mut states);
    let nontrivial = w.counters.get("c03_node_level_replays_checked").copied().unwrap_or(0) > 0;
    finish(w, res, nontrivial, states)
}

pub struct C03;

impl Scenario for C03 {
    fn id(&self) -> &'static str {
        "C03"
    }

    fn run(&self, seed: u64, ch: Chooser, ctx: &RunCtx) -> RunOut {
        // after the schedule sweep every tenth run is a node-level run
        if ctx.index >= l1::c03_sweep_size(ctx.tier) && ctx.index % 10 == 9 {
            node_level(seed, ch, ctx)
        } else {
            l1::c03(seed, ch, ctx)
        }
    }

    fn budget(&self, tier: Tier) -> (u64, u64) {
        match tier {
            Tier::Quick => (l1::c03_sweep_size(tier) + 30_000, 120),
            Tier::Thorough => (l1::c03_sweep_size(tier) + 400_000, 1500),
        }
    }

    fn rule(&self) -> &'static str {
        "an established pair of real PeerCrypto objects (cipher aes128/aes256/chacha20); the first 7^5 runs (thorough: 7^7) are a seed-indexed sweep over all schedules of that length over {seal next, deliver datagram 1..5 (again), tick receiver}; the remaining runs are random histories of 20-400 steps that add sender ticks, delivery/loss of rotation messages and fast-forwards of 100-300 ticks across key rotations; oracle computed from the recorded history only: a delivered genuine datagram with counter c under key generation g must be rejected iff a datagram with counter >= c was accepted under g before the receiver's previous tick, and accepted otherwise (while the receiver still holds g under that key id), opening to the sealed bytes. Every tenth run after the sweep is a node-level run: two real nodes, every captured data datagram is replayed 0-5 housekeeping rounds after its first delivery (in 30 % of the cases after the captured first handshake message was replayed to the receiver as well, which opens a handshake next to the established connection); a replay that arrives two or more housekeeping rounds of the receiver after the first delivery must not be written to the interface again. Non-trivial: at least one delivery was checked. Distinct = distinct schedule hashes."
    }

    fn expected_probes(&self) -> Vec<&'static str> {
        vec!["c03_expected_reject", "c03_expected_accept", "c03_runs_across_key_rotation", "c03_key_generation_gone", "c03_fast_forwards", "c03_node_level_replays_after_two_rounds", "c03_replayed_handshake_pings"]
    }

    fn exhaustive(&self, tier: Tier, runs: u64) -> bool {
        // the schedule sweep of the stated length is complete; the random part is sampled
        runs >= l1::c03_sweep_size(tier) && false
    }
}
