//! C03 - see l1.rs (pair level scenarios)
use super::{
    chooser::Chooser,
    l1,
    runner::{RunCtx, RunOut, Scenario, Tier},
};

pub struct C03;

impl Scenario for C03 {
    fn id(&self) -> &'static str {
        "C03"
    }

    fn run(&self, seed: u64, ch: Chooser, ctx: &RunCtx) -> RunOut {
        l1::c03(seed, ch, ctx)
    }

    fn budget(&self, tier: Tier) -> (u64, u64) {
        match tier {
            Tier::Quick => (l1::c03_sweep_size(tier) + 30_000, 120),
            Tier::Thorough => (l1::c03_sweep_size(tier) + 400_000, 1500),
        }
    }

    fn rule(&self) -> &'static str {
        "an established pair of real PeerCrypto objects (cipher aes128/aes256/chacha20); the first 7^5 runs (thorough: 7^7) are a seed-indexed sweep over all schedules of that length over {seal next, deliver datagram 1..5 (again), tick receiver}; the remaining runs are random histories of 20-400 steps that add sender ticks, delivery/loss of rotation messages and fast-forwards of 100-300 ticks across key rotations; oracle computed from the recorded history only: a delivered genuine datagram with counter c under key generation g must be rejected iff a datagram with counter >= c was accepted under g before the receiver's previous tick, and accepted otherwise (while the receiver still holds g under that key id), opening to the sealed bytes. Non-trivial: at least one delivery was checked. Distinct = distinct schedule hashes."
    }

    fn expected_probes(&self) -> Vec<&'static str> {
        vec!["c03_expected_reject", "c03_expected_accept", "c03_runs_across_key_rotation", "c03_key_generation_gone", "c03_fast_forwards"]
    }

    fn exhaustive(&self, tier: Tier, runs: u64) -> bool {
        // the schedule sweep of the stated length is complete; the random part is sampled
        runs >= l1::c03_sweep_size(tier) && false
    }
}
