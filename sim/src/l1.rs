//! L1 pair scenarios: C03 (replay window), C04 (nonce uniqueness), C07 (rotation), C06 (negotiation),
//! C05 (handshake agreement). Real PeerCrypto objects, schedules and faults from the Chooser.
use std::collections::{BTreeMap, BTreeSet};

use super::{
    chooser::Chooser,
    io::{self, NonceShape},
    pair::{self, Handled, Pair},
    rng,
    runner::{RunCtx, RunOut, Tier, Violation},
};
use crate::verif::Event;

pub struct L1 {
    pub ch: Chooser,
    pub counters: BTreeMap<&'static str, u64>,
    pub render: Option<Vec<String>>,
    pub log_hash: u64,
    pub sig: u64,
    pub ticks: u64,
    pub states: Vec<u64>,
}

impl L1 {
    pub fn new(ch: Chooser, ctx: &RunCtx) -> Self {
        L1 { ch, counters: BTreeMap::new(), render: if ctx.render { Some(vec![]) } else { None }, log_hash: 0x11, sig: 0, ticks: 0, states: vec![] }
    }

    pub fn count(&mut self, k: &'static str) {
        *self.counters.entry(k).or_insert(0) += 1;
    }

    pub fn count_n(&mut self, k: &'static str, n: u64) {
        *self.counters.entry(k).or_insert(0) += n;
    }

    pub fn note(&mut self, f: impl FnOnce() -> String) {
        if let Some(r) = self.render.as_mut() {
            r.push(f());
        }
    }

    pub fn ev(&mut self, code: u64, data: &[u8]) {
        self.log_hash = rng::mix(self.log_hash, code ^ rng::hash_bytes(data));
        self.sig = rng::mix(self.sig, (code & 0xffff) ^ (rng::hash_bytes(data) << 16));
    }

    pub fn finish(mut self, res: Result<(), Violation>, nontrivial: bool) -> RunOut {
        let trace = std::mem::take(&mut self.ch.trace);
        RunOut {
            violation: res.err(),
            log_hash: self.log_hash,
            sig: self.sig,
            nontrivial,
            sim_ms: self.ticks * 1000,
            counters: self.counters,
            render: self.render,
            trace,
            states: self.states,
            overrun: self.ch.overrun,
            steps: 0,
        }
    }
}

const CIPHERS: [&str; 3] = ["aes128", "aes256", "chacha20"];

/// activity of the real code under test in this run (part of every evidence file)
fn absorb_activity(l: &mut L1, p: &Pair) {
    l.count_n("real_seals", p.activity[0]);
    l.count_n("real_handshakes_completed", p.activity[1]);
    l.count_n("real_keys_rotated", p.activity[2]);
    l.count_n("real_peer_crypto_operations", p.step);
}

fn counter_of(nonce: &[u8; 12]) -> u128 {
    let mut v = 0u128;
    for b in &nonce[1..] {
        v = (v << 8) | *b as u128;
    }
    v
}

/// A datagram produced by an end together with the seal it carries (key fingerprint, nonce)
#[derive(Clone)]
struct Sealed {
    data: Vec<u8>,
    seal: Option<(u64, [u8; 12])>,
    tag: u32,
}

/// collects the Seal probes that an operation of `who` just emitted
fn seals_since(p: &Pair, from: usize, who: char) -> Vec<(u64, [u8; 12])> {
    p.probes[from..].iter().filter_map(|(w, e)| if *w == who { if let Event::Seal { key_fp, nonce, .. } = e { Some((*key_fp, *nonce)) } else { None } } else { None }).collect()
}

fn peer_fps(p: &mut Pair, who: char) -> Option<[u64; 4]> {
    p.end(who).peer.as_ref().and_then(|o| o.pc.verif_core().map(|c| c.verif_key_fps()))
}

fn peer_cur_key(p: &mut Pair, who: char) -> Option<u8> {
    p.end(who).peer.as_ref().and_then(|o| o.pc.verif_core().map(|c| c.verif_current_key()))
}

fn establish(l: &mut L1, seed: u64, algos_a: &[&str], algos_b: &[&str]) -> Result<Pair, Violation> {
    let hooks = io::install_hooks(seed);
    let cfg_a = pair::shared_key_config(algos_a);
    let mut cfg_b = cfg_a.clone();
    cfg_b.algorithms = algos_b.iter().map(|s| s.to_string()).collect();
    let mut p = Pair::new(hooks, &cfg_a, &cfg_b, [600.0, 500.0, 400.0], [600.0, 500.0, 400.0]).map_err(|e| Violation::new("setup", "crypto-setup-failed", e))?;
    if !p.establish() {
        l.count("l1_establish_failed");
        return Err(Violation::new("setup", "clean-handshake-does-not-complete", "a loss-free in-order handshake between two mutually trusting ends did not complete".to_string()));
    }
    Ok(p)
}

// ================================================================ C03

/// Replay window oracle for one direction (sender S -> receiver R), computed from the recorded history only
struct Window {
    /// per key fingerprint: accepted (epoch, counter)
    accepted: BTreeMap<u64, Vec<(u64, u128)>>,
}

impl Window {
    fn max_before(&self, fp: u64, epoch: u64) -> Option<u128> {
        // max counter accepted in epochs <= epoch - 2
        if epoch < 2 {
            return None;
        }
        self.accepted.get(&fp).and_then(|v| v.iter().filter(|(e, _)| *e + 2 <= epoch).map(|(_, c)| *c).max())
    }
}

pub fn c03(seed: u64, ch: Chooser, ctx: &RunCtx) -> RunOut {
    let mut l = L1::new(ch, ctx);
    let res = c03_inner(&mut l, seed, ctx);
    let nt = l.counters.get("c03_deliveries_checked").copied().unwrap_or(0) > 0;
    l.finish(res, nt)
}

pub fn c03_sweep_len(tier: Tier) -> u32 {
    match tier {
        Tier::Quick => 5,
        Tier::Thorough => 7,
    }
}

pub fn c03_sweep_size(tier: Tier) -> u64 {
    7u64.pow(c03_sweep_len(tier))
}

fn c03_inner(l: &mut L1, seed: u64, ctx: &RunCtx) -> Result<(), Violation> {
    let sweep = ctx.index < c03_sweep_size(ctx.tier);
    let cipher = if sweep { CIPHERS[(ctx.index % 3) as usize] } else { *l.ch.pick("cipher", &CIPHERS) };
    let mut p = establish(l, seed, &[cipher], &[cipher])?;
    // direction under test: S seals, R receives
    let (s, r) = if !sweep && l.ch.chance("reverse_direction", 500) { ('B', 'A') } else { ('A', 'B') };
    let mut win = Window { accepted: BTreeMap::new() };
    // datagrams S sealed during the handshake were all accepted once, in order, in epoch 0
    for (w, e) in &p.probes {
        if *w == s {
            if let Event::Seal { key_fp, nonce, .. } = e {
                win.accepted.entry(*key_fp).or_default().push((0, counter_of(nonce)));
            }
        }
    }
    let mut sent: Vec<Sealed> = vec![];
    let mut rot_flight: Vec<(char, Sealed)> = vec![];
    let mut tag = 0u32;
    let steps = if sweep { c03_sweep_len(ctx.tier) } else { 20 + l.ch.choose("steps", 380) };
    let mut idx = ctx.index;
    l.count(if sweep { "c03_sweep_runs" } else { "c03_random_runs" });
    for _ in 0..steps {
        // alphabet: 0 seal next, 1..=5 deliver datagram k (again), 6 tick receiver; random mode adds
        // 7 tick sender, 8 deliver a rotation message, 9 drop one, 10 fast-forward both ends
        let op = if sweep {
            let d = idx % 7;
            idx /= 7;
            d as usize
        } else {
            l.ch.weighted("op", &[6, 3, 3, 3, 2, 2, 6, 2, 2, 1, 1])
        };
        match op {
            0 => {
                tag += 1;
                let from = p.probes.len();
                let mut body = tag.to_be_bytes().to_vec();
                body.extend_from_slice(b"payload");
                if let Some(d) = p.seal(s, 0, &body) {
                    let seal = seals_since(&p, from, s).pop();
                    l.ev(1, &d);
                    sent.push(Sealed { data: d, seal, tag });
                }
            }
            1..=5 => {
                if sent.is_empty() {
                    continue;
                }
                // sweep: datagram index op-1 (if it exists); random: any of the last 5 or any at all
                let k = if sweep {
                    if op - 1 >= sent.len() {
                        continue;
                    }
                    op - 1
                } else if l.ch.chance("any_old", 300) {
                    l.ch.choose("which_old", sent.len() as u32) as usize
                } else {
                    sent.len() - 1 - (l.ch.choose("which_recent", sent.len().min(5) as u32) as usize)
                };
                let dg = sent[k].clone();
                deliver_checked(l, &mut p, &mut win, r, &dg)?;
            }
            6 | 7 => {
                let who = if op == 6 { r } else { s };
                let from = p.probes.len();
                let out = p.tick(who).map_err(|e| Violation::new("no-panic", "panic-in-tick", e))?;
                l.ticks += 1;
                l.ev(2 + (who as u64), &[]);
                let seals = seals_since(&p, from, who);
                for (i, d) in out.into_iter().enumerate() {
                    rot_flight.push((if who == 'A' { 'B' } else { 'A' }, Sealed { data: d, seal: seals.get(i).copied(), tag: 0 }));
                }
            }
            8 => {
                if rot_flight.is_empty() {
                    continue;
                }
                let k = l.ch.choose("rot_which", rot_flight.len() as u32) as usize;
                let (to, dg) = rot_flight.remove(k);
                deliver_rotation(l, &mut p, &mut win, s, r, to, &dg, &mut rot_flight)?;
            }
            9 => {
                if !rot_flight.is_empty() {
                    let k = l.ch.choose("rot_drop", rot_flight.len() as u32) as usize;
                    rot_flight.remove(k);
                    l.count("c03_rotation_messages_dropped");
                }
            }
            _ => {
                // fast-forward: both ends tick, rotation messages delivered at once
                let n = 100 + l.ch.choose("ff_ticks", 200);
                for _ in 0..n {
                    for who in [s, r] {
                        let from = p.probes.len();
                        let out = p.tick(who).map_err(|e| Violation::new("no-panic", "panic-in-tick", e))?;
                        l.ticks += 1;
                        let seals = seals_since(&p, from, who);
                        for (i, d) in out.into_iter().enumerate() {
                            let to = if who == 'A' { 'B' } else { 'A' };
                            let dg = Sealed { data: d, seal: seals.get(i).copied(), tag: 0 };
                            deliver_rotation(l, &mut p, &mut win, s, r, to, &dg, &mut rot_flight)?;
                        }
                    }
                }
                l.count("c03_fast_forwards");
            }
        }
    }
    // key generations crossed
    let gens = win.accepted.len();
    if gens > 1 {
        l.count("c03_runs_across_key_rotation");
    }
    absorb_activity(l, &p);
    Ok(())
}

fn deliver_rotation(l: &mut L1, p: &mut Pair, win: &mut Window, s: char, r: char, to: char, dg: &Sealed, rot_flight: &mut Vec<(char, Sealed)>) -> Result<(), Violation> {
    if to == r {
        // a rotation message sealed by S is a sealed datagram like any other for R's window
        let before = p.probes.len();
        let h = p.deliver(to, &dg.data);
        l.ev(5, &dg.data);
        if let Handled::Ok { replies, .. } = &h {
            let epoch = p.end(r).ticks;
            if let Some((fp, n)) = dg.seal {
                win.accepted.entry(fp).or_default().push((epoch, counter_of(&n)));
            }
            let seals = seals_since(p, before, to);
            for (i, d) in replies.iter().enumerate() {
                rot_flight.push((s, Sealed { data: d.clone(), seal: seals.get(i).copied(), tag: 0 }));
            }
        }
    } else {
        let _ = p.deliver(to, &dg.data);
        l.ev(6, &dg.data);
    }
    let _ = s;
    Ok(())
}

fn deliver_checked(l: &mut L1, p: &mut Pair, win: &mut Window, r: char, dg: &Sealed) -> Result<(), Violation> {
    let (fp, nonce) = match dg.seal {
        Some(x) => x,
        None => return Ok(()),
    };
    let c = counter_of(&nonce);
    let key_id = dg.data[0] % 4;
    let holds = peer_fps(p, r).map(|f| f[key_id as usize] == fp).unwrap_or(false);
    let epoch = p.end(r).ticks;
    let m = win.max_before(fp, epoch);
    let h = p.deliver(r, &dg.data);
    l.ev(4, &dg.data);
    let accepted = match &h {
        Handled::Ok { message: Some((0, body)), .. } => {
            if body.len() < 4 || body[..4] != dg.tag.to_be_bytes() {
                return Err(Violation::new("byte-identical", "opened-payload-differs", format!("datagram #{} opened to different bytes", dg.tag)));
            }
            true
        }
        Handled::Ok { .. } => false,
        Handled::Err(e) if e.starts_with("panic") => return Err(Violation::new("no-panic", "panic-in-receive", e.clone())),
        Handled::Err(_) => false,
    };
    l.count("c03_deliveries_checked");
    if !holds {
        l.count("c03_key_generation_gone");
        if accepted {
            return Err(Violation::new("replay-window", "accepted-under-overwritten-key", format!("datagram #{} sealed under a key the receiver no longer holds was accepted", dg.tag)));
        }
        return Ok(());
    }
    let must_reject = matches!(m, Some(mx) if c <= mx);
    if must_reject {
        l.count("c03_expected_reject");
    } else {
        l.count("c03_expected_accept");
    }
    l.note(|| format!("deliver #{} (counter ...{:x}) in epoch {}: expect {}, got {}", dg.tag, c & 0xffff, epoch, if must_reject { "reject" } else { "accept" }, if accepted { "accept" } else { "reject" }));
    if must_reject && accepted {
        return Err(Violation::new(
            "replay-window",
            "replay-accepted-after-two-ticks",
            format!("datagram #{} (counter {:x}) was accepted in receiver epoch {} although a datagram with counter {:x} had been accepted two or more ticks earlier", dg.tag, c, epoch, m.unwrap()),
        ));
    }
    if !must_reject && !accepted {
        return Err(Violation::new(
            "replay-window",
            "fresh-or-in-window-datagram-rejected",
            format!("datagram #{} (counter {:x}) was rejected in receiver epoch {} although nothing at least as new had been accepted before the previous tick (max before: {:?})", dg.tag, c, epoch, m),
        ));
    }
    if accepted {
        win.accepted.entry(fp).or_default().push((epoch, c));
    }
    Ok(())
}

// ================================================================ C07 + C04 (whole connection lifetimes)

struct SealLog {
    /// (end, key fp, nonce)
    seen: BTreeSet<(u64, [u8; 12])>,
    last: BTreeMap<(char, u64), [u8; 12]>,
    halves: BTreeMap<u64, BTreeMap<char, u8>>,
    starts: Vec<[u8; 12]>,
    start_of: BTreeMap<(char, u64), [u8; 12]>,
    checked: usize,
}

impl SealLog {
    fn new() -> Self {
        SealLog { seen: BTreeSet::new(), last: BTreeMap::new(), halves: BTreeMap::new(), starts: vec![], start_of: BTreeMap::new(), checked: 0 }
    }

    /// consumes new probes; checks uniqueness, monotonicity, disjoint halves
    fn absorb(&mut self, l: &mut L1, p: &Pair) -> Result<(), Violation> {
        for (who, e) in &p.probes[self.checked..] {
            match e {
                Event::Seal { key_fp, nonce, .. } => {
                    l.count("c04_seals_logged");
                    if !self.seen.insert((*key_fp, *nonce)) {
                        return Err(Violation::new("nonce-unique", "key-nonce-pair-reused", format!("end {} sealed a second datagram under key {:016x} with nonce {:02x?}", who, key_fp, nonce)));
                    }
                    if !self.last.contains_key(&(*who, *key_fp)) {
                        // the first seal under a key uses the drawn start value + 1: a fresh, unpredictable sequence
                        if let Some(st) = self.start_of.get(&(*who, *key_fp)) {
                            let mut exp = *st;
                            for i in (0..12).rev() {
                                exp[i] = exp[i].wrapping_add(1);
                                if exp[i] != 0 {
                                    break;
                                }
                            }
                            l.count("c04_first_seal_checked");
                            if *nonce != exp {
                                return Err(Violation::new("nonce-start", "first-seal-not-at-drawn-start", format!("end {} key {:016x}: first seal uses nonce {:02x?} but the key was initialised at {:02x?}", who, key_fp, nonce, st)));
                            }
                        }
                    }
                    if let Some(prev) = self.last.get(&(*who, *key_fp)) {
                        if nonce <= prev {
                            return Err(Violation::new("nonce-unique", "counter-not-increasing", format!("end {} key {:016x}: nonce {:02x?} after {:02x?}", who, key_fp, nonce, prev)));
                        }
                    }
                    self.last.insert((*who, *key_fp), *nonce);
                    let h = self.halves.entry(*key_fp).or_default();
                    h.insert(*who, nonce[0]);
                    if h.len() == 2 {
                        let v: Vec<u8> = h.values().copied().collect();
                        l.count("c04_both_ends_sealed_under_one_key");
                        if v[0] == v[1] {
                            return Err(Violation::new("nonce-halves", "both-ends-same-nonce-half", format!("both ends seal under key {:016x} with top nonce byte {:02x}", key_fp, v[0])));
                        }
                    }
                    // carry probes
                    if nonce[11] == 0 {
                        l.count("c04_low_byte_carry");
                        if nonce[10] == 0 {
                            l.count("c04_two_byte_carry");
                        }
                    }
                }
                Event::NonceStart { nonce, key_fp } => {
                    // the two ends of one key take opposite halves already when they install it
                    let other = if *who == 'A' { 'B' } else { 'A' };
                    if let Some(o) = self.start_of.get(&(other, *key_fp)) {
                        l.count("c04_key_installed_at_both_ends");
                        if o[0] == nonce[0] {
                            return Err(Violation::new("nonce-halves", "both-ends-same-nonce-half", format!("both ends installed key {:016x} with the same nonce half {:02x}", key_fp, nonce[0])));
                        }
                    }
                    self.starts.push(*nonce);
                    self.start_of.insert((*who, *key_fp), *nonce);
                    self.last.remove(&(*who, *key_fp));
                }
                _ => {}
            }
        }
        self.checked = p.probes.len();
        Ok(())
    }
}

pub fn c07_sweep_len(tier: Tier) -> u32 {
    match tier {
        Tier::Quick => 6,
        Tier::Thorough => 8,
    }
}

pub fn c07_sweep_size(tier: Tier) -> u64 {
    6u64.pow(c07_sweep_len(tier))
}

/// Seed-indexed sweep over all short schedules over {rotation cycle at A, cycle at B, deliver oldest / newest
/// in-flight rotation message, deliver a duplicate of the oldest, drop the oldest}; a probe in both directions
/// after every step
fn c07_sweep(l: &mut L1, seed: u64, ctx: &RunCtx) -> Result<(), Violation> {
    let cipher = CIPHERS[(ctx.index % 3) as usize];
    let mut p = establish(l, seed, &[cipher], &[cipher])?;
    let mut flight: Vec<(char, Vec<u8>)> = vec![];
    let mut idx = ctx.index;
    let mut tag = 0u32;
    l.count("c07_sweep_runs");
    for _ in 0..c07_sweep_len(ctx.tier) {
        let op = idx % 6;
        idx /= 6;
        l.ev(80 + op, &[]);
        match op {
            0 | 1 => {
                let who = if op == 0 { 'A' } else { 'B' };
                for _ in 0..120 {
                    l.ticks += 1;
                    for d in p.tick(who).map_err(|e| Violation::new("no-panic", "panic-in-tick", e))? {
                        flight.push((if who == 'A' { 'B' } else { 'A' }, d));
                        l.count("c07_rotation_messages_sent");
                    }
                }
            }
            2 | 3 | 4 => {
                if flight.is_empty() {
                    continue;
                }
                let k = if op == 3 { flight.len() - 1 } else { 0 };
                let (to, d) = if op == 4 { flight[k].clone() } else { flight.remove(k) };
                if op == 4 {
                    l.count("fault_dup");
                }
                if k != 0 {
                    l.count("fault_reorder");
                }
                match p.deliver(to, &d) {
                    Handled::Err(e) if e.starts_with("panic") => return Err(Violation::new("no-panic", "panic-in-receive", e)),
                    Handled::Ok { replies, .. } => {
                        for r in replies {
                            if !r.is_empty() {
                                flight.push((if to == 'A' { 'B' } else { 'A' }, r));
                            }
                        }
                    }
                    _ => {}
                }
            }
            _ => {
                if !flight.is_empty() {
                    flight.remove(0);
                    l.count("fault_drop");
                }
            }
        }
        for (s, r) in [('A', 'B'), ('B', 'A')] {
            tag += 1;
            let mut body = tag.to_be_bytes().to_vec();
            body.extend_from_slice(b"probe");
            let dg = match p.seal(s, 0, &body) {
                Some(d) => d,
                None => return Err(Violation::new("rotation", "cannot-seal", format!("end {} cannot seal", s))),
            };
            let ok = matches!(p.deliver(r, &dg), Handled::Ok { message: Some((0, ref b)), .. } if *b == body);
            l.count("c07_probes_checked");
            if !ok {
                return Err(Violation::new("rotation", "fresh-payload-not-decryptable", format!("sweep schedule {}: after operation {} a datagram freshly sealed by {} does not open at {}", ctx.index, op, s, r)));
            }
        }
    }
    absorb_activity(l, &p);
    Ok(())
}

pub fn c07(seed: u64, ch: Chooser, ctx: &RunCtx) -> RunOut {
    let mut l = L1::new(ch, ctx);
    if ctx.index < c07_sweep_size(ctx.tier) {
        let res = c07_sweep(&mut l, seed, ctx);
        let nt = l.counters.get("c07_probes_checked").copied().unwrap_or(0) > 0;
        return l.finish(res, nt);
    }
    let res = lifetime(&mut l, seed, ctx, true);
    let nt = l.counters.get("c07_probes_checked").copied().unwrap_or(0) > 0;
    l.finish(res, nt)
}

pub fn c04(seed: u64, ch: Chooser, ctx: &RunCtx) -> RunOut {
    let mut l = L1::new(ch, ctx);
    let res = lifetime(&mut l, seed, ctx, false);
    let nt = l.counters.get("c04_seals_logged").copied().unwrap_or(0) > 10;
    l.finish(res, nt)
}

/// One connection lifetime: handshake, then independent ticking of both ends with rotation messages
/// subject to loss / duplication / reordering / delay; after every step a probe in both directions.
fn lifetime(l: &mut L1, seed: u64, ctx: &RunCtx, c07_focus: bool) -> Result<(), Violation> {
    let cipher = *l.ch.pick("cipher", &CIPHERS);
    // C04: nonce starts shaped to sit shortly below a carry boundary in half of the runs
    let shape = if !c07_focus && l.ch.chance("near_carry", 600) {
        let carry_bytes = 1 + l.ch.choose("carry_bytes", 6) as u8;
        let distance = l.ch.choose("carry_distance", 300) as u16;
        Some(NonceShape::NearCarry { carry_bytes, distance })
    } else {
        None
    };
    let hooks = io::install_hooks(seed);
    if let Some(s) = shape {
        hooks.borrow_mut().nonce_shape = s;
        l.count("c04_nonce_start_near_carry");
    }
    let cfg_a = pair::shared_key_config(&[cipher]);
    let cfg_b = cfg_a.clone();
    let mut p = Pair::new(hooks.clone(), &cfg_a, &cfg_b, [600.0, 500.0, 400.0], [600.0, 500.0, 400.0]).map_err(|e| Violation::new("setup", "crypto-setup-failed", e))?;
    let mut log = SealLog::new();
    // handshake: clean, or dual open with reordering (half assignment must hold for every schedule)
    let dual = l.ch.chance("dual_open", 400);
    let mut flight: Vec<(char, Vec<u8>)> = vec![];
    if let Some(d) = p.dial('A', false) {
        flight.push(('B', d));
    }
    if dual {
        if let Some(d) = p.dial('B', false) {
            flight.push(('A', d));
        }
        l.count("l1_dual_open");
    }
    let mut guard = 0;
    while !flight.is_empty() && guard < 60 {
        guard += 1;
        let k = if dual { l.ch.choose("hs_which", flight.len() as u32) as usize } else { 0 };
        let (to, d) = flight.remove(k);
        if dual && l.ch.chance("hs_dup", 100) {
            flight.push((to, d.clone()));
        }
        if let Handled::Ok { replies, .. } = p.deliver(to, &d) {
            for r in replies {
                if !r.is_empty() {
                    flight.push((if to == 'A' { 'B' } else { 'A' }, r));
                }
            }
        }
        log.absorb(l, &p)?;
        // retransmissions
        if flight.is_empty() && !(p.a.peer.is_some() && p.b.peer.is_some() && p.a.pending.is_none() && p.b.pending.is_none()) {
            for who in ['A', 'B'] {
                for d in p.tick(who).map_err(|e| Violation::new("no-panic", "panic-in-tick", e))? {
                    flight.push((if who == 'A' { 'B' } else { 'A' }, d));
                }
            }
        }
    }
    if !(p.a.peer.is_some() && p.b.peer.is_some()) {
        l.count("l1_establish_failed");
        return Ok(());
    }
    // the generator's bytes must be what the keys start with (checked below through NonceStart probes)
    let mut rot: Vec<(char, Vec<u8>, u64)> = vec![]; // (to, datagram, not before step)
    // one run in fifty is a long lifetime: more than 128 rotation cycles per end (message ids beyond 255)
    let long = l.ch.chance("long_lifetime", 20);
    if long {
        l.count("c07_long_lifetimes");
    }
    let total_ticks = match (ctx.tier, long) {
        (_, true) => 16_000 + l.ch.choose("ticks_long", 6000) as u64,
        (Tier::Quick, _) => 300 + l.ch.choose("ticks", 1200) as u64,
        (Tier::Thorough, _) => 300 + l.ch.choose("ticks", 3700) as u64,
    };
    // fault shape for rotation messages
    let loss = if l.ch.chance("use_loss", 500) { *l.ch.pick("loss_pm", &[100u32, 300, 600]) } else { 0 };
    let dup = if l.ch.chance("use_dup", 400) { *l.ch.pick("dup_pm", &[100u32, 400]) } else { 0 };
    let delay = if l.ch.chance("use_delay", 400) { *l.ch.pick("delay_ticks", &[50u64, 200, 600]) } else { 0 };
    // relative rates: one end may run slower (drift) or stall for a while
    let slow_b = if l.ch.chance("drift", 300) { 1 + l.ch.choose("drift_every", 20) as u64 } else { 0 };
    let fault_until = total_ticks * l.ch.choose("fault_share", 4) as u64 / 4;
    let mut tag = 0u32;
    let mut key_changes: BTreeMap<char, Vec<u64>> = BTreeMap::new();
    let mut last_key: BTreeMap<char, Option<u8>> = BTreeMap::new();
    let mut t = 0u64;
    while t < total_ticks {
        t += 1;
        l.ticks += 1;
        let faults_on = t <= fault_until;
        // which ends tick in this round
        let mut order = vec!['A', 'B'];
        if l.ch.chance("swap_order", 500) {
            order.reverse();
        }
        for who in order {
            if who == 'B' && slow_b > 0 && t % slow_b == 0 && faults_on {
                continue; // B skips a tick: relative drift
            }
            let out = p.tick(who).map_err(|e| Violation::new("no-panic", "panic-in-tick", e))?;
            l.ev(10 + who as u64, &[]);
            for d in out {
                let to = if who == 'A' { 'B' } else { 'A' };
                l.count("c07_rotation_messages_sent");
                if faults_on && l.ch.chance("rot_loss", loss) {
                    l.count("fault_drop");
                    continue;
                }
                let nb = if faults_on && delay > 0 && l.ch.chance("rot_delay", 300) {
                    l.count("fault_delay");
                    p.step + l.ch.choose("rot_delay_ticks", delay as u32) as u64 * 3
                } else {
                    0
                };
                if faults_on && l.ch.chance("rot_dup", dup) {
                    l.count("fault_dup");
                    rot.push((to, d.clone(), nb + 5));
                }
                rot.push((to, d, nb));
            }
            log.absorb(l, &p)?;
            // deliver what is due (random order among the due ones = reordering)
            loop {
                let due: Vec<usize> = (0..rot.len()).filter(|i| rot[*i].2 <= p.step).collect();
                if due.is_empty() {
                    break;
                }
                let k = due[l.ch.choose("rot_order", due.len() as u32) as usize];
                if k != due[0] {
                    l.count("fault_reorder");
                }
                let (to, d, _) = rot.remove(k);
                match p.deliver(to, &d) {
                    Handled::Err(e) if e.starts_with("panic") => return Err(Violation::new("no-panic", "panic-in-receive", e)),
                    Handled::Ok { replies, .. } => {
                        for r2 in replies {
                            if !r2.is_empty() {
                                rot.push((if to == 'A' { 'B' } else { 'A' }, r2, 0));
                            }
                        }
                    }
                    _ => {}
                }
                l.ev(20, &d);
                log.absorb(l, &p)?;
            }
            // after every step: fresh payload sealed by each end opens at the other, byte-identical
            for (s, r) in [('A', 'B'), ('B', 'A')] {
                tag += 1;
                let mut body = tag.to_be_bytes().to_vec();
                body.extend_from_slice(b"probe");
                let cur = peer_cur_key(&mut p, s);
                let dg = match p.seal(s, 0, &body) {
                    Some(d) => d,
                    None => return Err(Violation::new("rotation", "cannot-seal", format!("end {} cannot seal at tick {}", s, t))),
                };
                let ok = matches!(p.deliver(r, &dg), Handled::Ok { message: Some((0, ref b)), .. } if *b == body);
                l.count("c07_probes_checked");
                if !ok {
                    let fps_s = peer_fps(&mut p, s);
                    let fps_r = peer_fps(&mut p, r);
                    return Err(Violation::new(
                        "rotation",
                        "fresh-payload-not-decryptable",
                        format!("tick {}: a datagram freshly sealed by {} with key id {:?} does not open at {} (sender slots {:016x?}, receiver slots {:016x?})", t, s, cur, r, fps_s, fps_r),
                    ));
                }
                let lk = last_key.entry(s).or_insert(cur);
                if *lk != cur {
                    *lk = cur;
                    key_changes.entry(s).or_default().push(t);
                    l.count("c07_sealing_key_changes");
                }
            }
            log.absorb(l, &p)?;
        }
    }
    // freshness: in the fault-free suffix the sealing key of each direction changes at least once per
    // 2 rotation intervals (+1 tick), after a recovery allowance of 4 intervals
    const INTERVAL: u64 = 120;
    let start = fault_until + 4 * INTERVAL;
    if total_ticks > start + 2 * INTERVAL + 1 {
        for who in ['A', 'B'] {
            let ch = key_changes.get(&who).cloned().unwrap_or_default();
            let mut from = start;
            while from + 2 * INTERVAL + 1 <= total_ticks {
                let hit = ch.iter().any(|c| *c > from && *c <= from + 2 * INTERVAL + 1);
                l.count("c07_freshness_windows_checked");
                if !hit {
                    return Err(Violation::new(
                        "freshness",
                        "sealing-key-not-replaced-in-two-intervals",
                        format!("end {} kept its sealing key from tick {} to {} although rotation messages were delivered reliably since tick {} (key changes at {:?})", who, from, from + 2 * INTERVAL + 1, fault_until, ch),
                    ));
                }
                from += INTERVAL;
            }
        }
    }
    // C04 (d): every key's first nonce carries the generator's bytes, in order of creation
    let fills: Vec<Vec<u8>> = p.hooks.borrow().nonce_fills.clone();
    if log.starts.len() != fills.len() {
        return Err(Violation::new("nonce-start", "nonce-start-not-from-generator", format!("{} keys were initialised but the generator was asked {} times for a nonce start", log.starts.len(), fills.len())));
    }
    for (i, s) in log.starts.iter().enumerate() {
        if s[6..] != fills[i][..] || s[1..6] != [0, 0, 0, 0, 0] || (s[0] != 0 && s[0] != 0x80) {
            return Err(Violation::new("nonce-start", "nonce-start-not-from-generator", format!("key #{} starts at nonce {:02x?} but the generator handed out {:02x?}", i, s, fills[i])));
        }
    }
    l.count_n("c04_nonce_starts_checked", log.starts.len() as u64);
    if !c07_focus && l.ch.chance("counter_limit", 500) {
        counter_limit(l, &mut p, &mut log)?;
    }
    l.states.push(log.seen.len() as u64 ^ (key_changes.values().map(|v| v.len() as u64).sum::<u64>() << 32));
    absorb_activity(l, &p);
    Ok(())
}

/// Places the send counter of A within reach of the 56 bit limit: beyond it B opens nothing, and no
/// (key, nonce) pair repeats
fn counter_limit(l: &mut L1, p: &mut Pair, log: &mut SealLog) -> Result<(), Violation> {
    let below = 1 + l.ch.choose("below_limit", 40) as u64;
    let ticking = l.ch.chance("ticks_near_limit", 500);
    let cur = p.a.peer.as_ref().and_then(|o| o.pc.verif_core().map(|c| c.verif_send_nonce()));
    let mut n = match cur {
        Some(n) => n,
        None => return Ok(()),
    };
    // transmitted part: bytes 5..12 (56 bits); place it at 2^56 - below
    let v: u64 = (1u64 << 56) - below;
    let vb = v.to_be_bytes();
    n[5..12].copy_from_slice(&vb[1..8]);
    n[1..5].copy_from_slice(&[0, 0, 0, 0]);
    if let Some(o) = p.a.peer.as_mut() {
        if let Some(c) = o.pc.verif_core_mut() {
            c.verif_set_send_nonce(n);
        }
    }
    l.count("c04_counter_placed_near_56_bit_limit");
    let mut tag = 0x7000_0000u32;
    for i in 0..(below + 40) {
        tag += 1;
        let body = tag.to_be_bytes().to_vec();
        let from = p.probes.len();
        let dg = match p.seal('A', 0, &body) {
            Some(d) => d,
            None => break,
        };
        let seal = seals_since(p, from, 'A').pop();
        log.absorb(l, p)?;
        let opened = matches!(p.deliver('B', &dg), Handled::Ok { message: Some((0, ref b)), .. } if *b == body);
        let past = match seal {
            Some((_, nn)) => nn[1..5] != [0, 0, 0, 0],
            None => false,
        };
        if past {
            l.count("c04_seals_past_56_bit_limit");
            if opened {
                return Err(Violation::new("counter-limit", "datagram-past-56-bit-limit-opened", format!("seal #{} after placement: the counter no longer fits 56 bits but the peer opened the datagram", i)));
            }
        } else if !opened {
            return Err(Violation::new("counter-limit", "datagram-below-56-bit-limit-rejected", format!("seal #{} after placement: counter still fits 56 bits but the peer rejected the datagram", i)));
        }
        // housekeeping between the seals must not bring the counter back (rotation messages a tick emits are not
        // delivered: the key under test stays the sending key)
        if ticking && l.ch.chance("tick_near_limit", 300) {
            let who = if l.ch.chance("tick_sender", 700) { 'A' } else { 'B' };
            let _ = p.tick(who);
            log.absorb(l, p)?;
            l.count("c04_ticks_near_56_bit_limit");
        }
    }
    Ok(())
}

// ================================================================ C06 (cipher negotiation)

// whole numbers, a tie, the extremes, and fractional values less than one apart (measured speeds are never whole)
pub const SPEED_GRID: [f32; 12] = [0.0, 1.0, 50.0, 50.0, 400.0, 3.4e38, 100.2, 100.4, 99.6, 100.5, 0.4, 0.6];
const NAMES: [&str; 3] = ["AES128", "AES256", "CHACHA20"];

#[derive(Clone, Debug, PartialEq)]
enum Outcome {
    Plain,
    Cipher(Vec<usize>),
    NoCommon,
}

/// Reference (independent of the code): plain iff both allow it; else the common ciphers whose slower side is fastest
fn ref_select(a_set: u8, a_speeds: [f32; 3], b_set: u8, b_speeds: [f32; 3]) -> Outcome {
    if a_set & 1 != 0 && b_set & 1 != 0 {
        return Outcome::Plain;
    }
    let mut best: Option<f32> = None;
    let mut which = vec![];
    for c in 0..3 {
        if a_set & (2 << c) != 0 && b_set & (2 << c) != 0 {
            let m = if a_speeds[c] < b_speeds[c] { a_speeds[c] } else { b_speeds[c] };
            match best {
                Some(b) if m < b => {}
                Some(b) if m == b => which.push(c),
                _ => {
                    best = Some(m);
                    which = vec![c];
                }
            }
        }
    }
    if which.is_empty() {
        Outcome::NoCommon
    } else {
        Outcome::Cipher(which)
    }
}

fn list_for(l: &mut L1, set: u8, order_seed: u32) -> Vec<&'static str> {
    // members of the set (bit 0 plain, bits 1..3 ciphers) in a permutation chosen by order_seed
    let mut v: Vec<&'static str> = vec![];
    if set & 1 != 0 {
        v.push("plain");
    }
    for c in 0..3 {
        if set & (2 << c) != 0 {
            v.push(CIPHERS[c]);
        }
    }
    let mut r = rng::Rng::new(order_seed as u64 ^ 0x0c06);
    for i in (1..v.len()).rev() {
        let j = r.below(i as u64 + 1) as usize;
        v.swap(i, j);
    }
    let _ = l;
    v
}

/// one handshake under the given configuration; who: 0 = A dials, 1 = B dials, 2 = both
/// returns (cipher at A, cipher at B, fatal errors seen)
#[allow(clippy::too_many_arguments)]
fn negotiate(l: &mut L1, seed: u64, la: &[&str], lb: &[&str], sa: [f32; 3], sb: [f32; 3], who: u32, edit: Option<(u32, u32, u32)>) -> Result<(Option<&'static str>, Option<&'static str>, Vec<String>, bool), Violation> {
    let hooks = io::install_hooks(seed);
    let mut cfg_a = pair::shared_key_config(la);
    // an empty list means "defaults" to the configuration parser; the empty SET is expressed as a list that
    // only allows plain on one side, so use sets with at least one member
    let mut cfg_b = cfg_a.clone();
    cfg_a.algorithms = la.iter().map(|s| s.to_string()).collect();
    cfg_b.algorithms = lb.iter().map(|s| s.to_string()).collect();
    let mut p = Pair::new(hooks, &cfg_a, &cfg_b, sa, sb).map_err(|e| Violation::new("setup", "crypto-setup-failed", e))?;
    let mut flight: Vec<(char, Vec<u8>)> = vec![];
    if who == 0 || who == 2 {
        if let Some(d) = p.dial('A', false) {
            flight.push(('B', d));
        }
    }
    if who == 1 || who == 2 {
        if let Some(d) = p.dial('B', false) {
            flight.push(('A', d));
        }
    }
    let mut edited_rejected = true;
    let mut edit = edit;
    let mut guard = 0;
    let mut ticks = 0;
    loop {
        while !flight.is_empty() && guard < 80 {
            guard += 1;
            let k = if who == 2 { l.ch.choose("hs_which", flight.len() as u32) as usize } else { 0 };
            let (to, d) = flight.remove(k);
            // in-flight edit of the cipher list of the first message that carries one
            if let Some((field, idx, val)) = edit {
                if let Some(lay) = super::refmodel::handshake_layout(&d) {
                    if let Some((_, _, body, len)) = lay.parts.iter().find(|p| p.0 == 4).copied() {
                        let mut e = d.clone();
                        match field {
                            0 if len >= 5 => {
                                // algorithm id of entry idx
                                let at = body + (idx as usize % (len / 5)) * 5;
                                e[at] = (e[at] + 1 + (val % 3) as u8) % 4;
                            }
                            1 if len >= 5 => {
                                // a speed byte
                                let at = body + (idx as usize % (len / 5)) * 5 + 1 + (val as usize % 4);
                                e[at] ^= 0x40;
                            }
                            _ => {
                                // the length of the list (drop or add an entry's worth)
                                let at = body - 2;
                                let cur = u16::from_be_bytes([e[at], e[at + 1]]);
                                let nv = if val % 2 == 0 { cur.saturating_sub(5) } else { cur + 5 };
                                e[at..at + 2].copy_from_slice(&nv.to_be_bytes());
                            }
                        }
                        edit = None;
                        l.count("c06_lists_edited_in_flight");
                        let before_a = (p.a.peer.is_some(), p.a.pending.as_ref().map(|o| o.pc.verif_init_stage()));
                        let before_b = (p.b.peer.is_some(), p.b.pending.as_ref().map(|o| o.pc.verif_init_stage()));
                        match p.deliver(to, &e) {
                            Handled::Err(_) => {}
                            Handled::Ok { .. } => edited_rejected = false,
                        }
                        let after_a = (p.a.peer.is_some(), p.a.pending.as_ref().map(|o| o.pc.verif_init_stage()));
                        let after_b = (p.b.peer.is_some(), p.b.pending.as_ref().map(|o| o.pc.verif_init_stage()));
                        if before_a != after_a || before_b != after_b {
                            edited_rejected = false;
                        }
                        // the genuine message follows (as a retransmission would)
                    }
                }
            }
            if let Handled::Ok { replies, .. } = p.deliver(to, &d) {
                for r in replies {
                    if !r.is_empty() {
                        flight.push((if to == 'A' { 'B' } else { 'A' }, r));
                    }
                }
            }
        }
        let done = p.a.pending.is_none() && p.b.pending.is_none();
        if done || ticks >= 6 || guard >= 80 {
            break;
        }
        // retransmissions for dual open leftovers
        ticks += 1;
        for w in ['A', 'B'] {
            for d in p.tick(w).map_err(|e| Violation::new("no-panic", "panic-in-tick", e))? {
                flight.push((if w == 'A' { 'B' } else { 'A' }, d));
            }
        }
    }
    let ca = p.a.peer.as_ref().map(|o| o.pc.algorithm_name());
    let cb = p.b.peer.as_ref().map(|o| o.pc.algorithm_name());
    let mut errs = p.a.fatal_errors.clone();
    errs.extend(p.b.fatal_errors.clone());
    // established ends must interoperate
    if ca.is_some() && cb.is_some() {
        for (s, r) in [('A', 'B'), ('B', 'A')] {
            let body = b"c06-probe".to_vec();
            if let Some(dg) = p.seal(s, 0, &body) {
                let ok = matches!(p.deliver(r, &dg), Handled::Ok { message: Some((0, ref b)), .. } if *b == body);
                if !ok {
                    return Err(Violation::new("negotiation", "established-ends-cannot-talk", format!("both ends completed ({:?}, {:?}) but a datagram sealed by {} does not open at {}", ca, cb, s, r)));
                }
            }
        }
    }
    absorb_activity(l, &p);
    Ok((ca, cb, errs, edited_rejected))
}

pub fn c06_grid(_tier: Tier) -> u64 {
    // pairs of non-empty subsets of {plain, aes128, aes256, chacha20}
    15 * 15
}

pub fn c06(seed: u64, ch: Chooser, ctx: &RunCtx) -> RunOut {
    let mut l = L1::new(ch, ctx);
    let res = c06_inner(&mut l, seed, ctx);
    let nt = l.counters.get("c06_negotiations_checked").copied().unwrap_or(0) > 0;
    l.finish(res, nt)
}

fn c06_inner(l: &mut L1, seed: u64, ctx: &RunCtx) -> Result<(), Violation> {
    // run i: subset pair (i mod 225), speeds and everything else from the seed
    let cell = ctx.index % c06_grid(ctx.tier);
    let a_set = 1 + (cell % 15) as u8;
    let b_set = 1 + (cell / 15) as u8;
    let mut sa = [0f32; 3];
    let mut sb = [0f32; 3];
    for c in 0..3 {
        sa[c] = *l.ch.pick("speed_a", &SPEED_GRID);
        sb[c] = *l.ch.pick("speed_b", &SPEED_GRID);
    }
    let expect = ref_select(a_set, sa, b_set, sb);
    match &expect {
        Outcome::Plain => l.count("c06_expect_plain"),
        Outcome::NoCommon => l.count("c06_expect_no_common"),
        Outcome::Cipher(w) if w.len() > 1 => l.count("c06_expect_tie"),
        _ => l.count("c06_expect_unique_cipher"),
    }
    // metamorphic: several list orders x initiator assignments must give one and the same outcome
    let variants = 2 + l.ch.choose("variants", 3);
    let mut seen: Option<Option<&'static str>> = None;
    let edit_variant = if l.ch.chance("edit_in_flight", 400) { Some(l.ch.choose("edit_variant", variants)) } else { None };
    for v in 0..variants {
        let oa = l.ch.seed32("order_a");
        let ob = l.ch.seed32("order_b");
        let la = list_for(l, a_set, oa);
        let lb = list_for(l, b_set, ob);
        let who = l.ch.choose("initiator", 3);
        let edit = if edit_variant == Some(v) { Some((l.ch.choose("edit_field", 3), l.ch.choose("edit_index", 4), l.ch.choose("edit_value", 8))) } else { None };
        let (ca, cb, errs, edited_rejected) = negotiate(l, rng::mix(seed, v as u64), &la, &lb, sa, sb, who, edit)?;
        l.ev(30 + who as u64, format!("{:?}{:?}{:?}{:?}", la, lb, ca, cb).as_bytes());
        l.count("c06_negotiations_checked");
        l.note(|| format!("A {:?} {:?}  B {:?} {:?}  initiator {}  -> A={:?} B={:?} (reference {:?})", la, sa, lb, sb, who, ca, cb, expect));
        let desc = format!("A advertises {:?} speeds {:?}, B advertises {:?} speeds {:?}, initiator {}", la, sa, lb, sb, ["A", "B", "both"][who as usize]);
        if edit.is_some() && !edited_rejected {
            return Err(Violation::new("no-downgrade", "edited-cipher-list-not-rejected", format!("{}: a ping/pong whose cipher list was edited in transit was not rejected", desc)));
        }
        match &expect {
            Outcome::NoCommon => {
                if ca.is_some() || cb.is_some() {
                    return Err(Violation::new("negotiation", "connected-without-common-cipher", format!("{}: no common cipher, yet A={:?} B={:?}", desc, ca, cb)));
                }
                if !errs.iter().any(|e| e.contains("No common algorithms")) {
                    return Err(Violation::new("negotiation", "no-clean-failure-without-common-cipher", format!("{}: expected a clean 'no common algorithms' failure, saw {:?}", desc, errs)));
                }
            }
            Outcome::Plain => {
                if ca != Some("PLAIN") || cb != Some("PLAIN") {
                    return Err(Violation::new("negotiation", "plain-expected", format!("{}: both enabled plain but A={:?} B={:?}", desc, ca, cb)));
                }
            }
            Outcome::Cipher(best) => {
                if ca.is_none() || cb.is_none() {
                    return Err(Violation::new("negotiation", "handshake-failed-despite-common-cipher", format!("{}: common ciphers exist (best {:?}) but A={:?} B={:?}, errors {:?}", desc, best.iter().map(|c| NAMES[*c]).collect::<Vec<_>>(), ca, cb, errs)));
                }
                if ca != cb {
                    return Err(Violation::new("negotiation", "ends-selected-different-ciphers", format!("{}: A={:?} B={:?}", desc, ca, cb)));
                }
                let name = ca.unwrap();
                if name == "PLAIN" {
                    return Err(Violation::new("no-downgrade", "plain-without-mutual-consent", format!("{}: unencrypted although not both ends enabled it", desc)));
                }
                if !best.iter().any(|c| NAMES[*c] == name) {
                    return Err(Violation::new("negotiation", "not-the-fastest-common-cipher", format!("{}: selected {} but the slower side is fastest for {:?}", desc, name, best.iter().map(|c| NAMES[*c]).collect::<Vec<_>>())));
                }
            }
        }
        // same outcome under every order / initiator
        match seen {
            None => seen = Some(ca),
            Some(prev) => {
                if prev != ca {
                    return Err(Violation::new("order-independence", "outcome-depends-on-order-or-initiator", format!("{}: selected {:?}, but another list order / initiator gave {:?}", desc, ca, prev)));
                }
            }
        }
    }
    Ok(())
}

// ================================================================ C05 (pair level agreement)

pub fn c05_sweep_len(tier: Tier) -> u32 {
    match tier {
        Tier::Quick => 4,
        Tier::Thorough => 6,
    }
}

pub fn c05_sweep_size(tier: Tier) -> u64 {
    8u64.pow(c05_sweep_len(tier))
}

pub fn c05(seed: u64, ch: Chooser, ctx: &RunCtx, l1_index: u64) -> RunOut {
    c05_for(seed, ch, ctx, l1_index, false)
}

/// the handshake schedules of C05 with the seal-log oracles of C04 (`for_c04`) or the agreement oracles of C05
pub fn c05_for(seed: u64, ch: Chooser, ctx: &RunCtx, l1_index: u64, for_c04: bool) -> RunOut {
    let mut l = L1::new(ch, ctx);
    let res = match c05_inner(&mut l, seed, ctx, l1_index) {
        Err(v) => {
            let is_c04 = v.oracle.starts_with("nonce-") || v.oracle == "counter-limit";
            if is_c04 == for_c04 || v.oracle == "no-panic" || v.oracle == "setup" {
                Err(v)
            } else {
                l.count("foreign_observations");
                Ok(())
            }
        }
        Ok(()) => Ok(()),
    };
    let nt = l.counters.get("c05_l1_completions").copied().unwrap_or(0) > 0;
    l.finish(res, nt)
}

fn c05_inner(l: &mut L1, seed: u64, ctx: &RunCtx, l1_index: u64) -> Result<(), Violation> {
    let sweep = l1_index < c05_sweep_size(ctx.tier);
    let hooks = io::install_hooks(seed);
    let cipher = if sweep { CIPHERS[(l1_index % 3) as usize] } else { *l.ch.pick("cipher", &["aes128", "aes256", "chacha20", "plain"]) };
    let cfg_a = pair::shared_key_config(&[cipher]);
    let cfg_b = cfg_a.clone();
    let mut p = Pair::new(hooks, &cfg_a, &cfg_b, [600.0, 500.0, 400.0], [600.0, 500.0, 400.0]).map_err(|e| Violation::new("setup", "crypto-setup-failed", e))?;
    let mut flight: Vec<(char, Vec<u8>)> = vec![];
    let steps = if sweep { c05_sweep_len(ctx.tier) } else { 10 + l.ch.choose("steps", 190) };
    l.count(if sweep { "c05_l1_sweep_runs" } else { "c05_l1_random_runs" });
    let mut idx = l1_index;
    let mut checked_pairs: BTreeSet<(u32, u32)> = BTreeSet::new();
    let mut seal_log = SealLog::new();
    for _ in 0..steps {
        seal_log.absorb(l, &p)?;
        // alphabet: 0 A initiates, 1 B initiates, 2 deliver oldest, 3 deliver any, 4 deliver a duplicate,
        // 5 drop, 6 tick A, 7 tick B
        let op = if sweep {
            let d = idx % 8;
            idx /= 8;
            d as usize
        } else {
            l.ch.weighted("op", &[2, 2, 6, 4, 2, 2, 2, 2])
        };
        l.ev(40 + op as u64, &[]);
        match op {
            0 | 1 => {
                let who = if op == 0 { 'A' } else { 'B' };
                // like the node: no new attempt while one is pending or a peer exists (timeout re-dials drop the peer first)
                let force = !sweep && l.ch.chance("redial_although_peer", 100);
                if let Some(d) = p.dial(who, force) {
                    flight.push((if who == 'A' { 'B' } else { 'A' }, d));
                    l.count("c05_l1_dials");
                    let att = p.end(who).next_attempt - 1;
                    l.note(|| format!("{} initiates attempt #{}{}", who, att, if force { " (forced re-dial)" } else { "" }));
                }
            }
            2 | 3 | 4 => {
                if flight.is_empty() {
                    continue;
                }
                let k = if op == 2 { 0 } else if sweep { flight.len() - 1 } else { l.ch.choose("which", flight.len() as u32) as usize };
                let (to, d) = if op == 4 { flight[k].clone() } else { flight.remove(k) };
                if op == 4 {
                    l.count("fault_dup");
                }
                if k != 0 {
                    l.count("fault_reorder");
                }
                let stage = if d.len() > 13 && d[0] == 0xff { d[12] } else { 0 };
                let h = p.deliver(to, &d);
                l.note(|| format!("deliver to {} {}{} bytes (handshake stage {}): {}", to, if op == 4 { "a duplicate of " } else { "" }, d.len(), stage, match &h {
                    Handled::Err(e) => format!("error {}", e),
                    Handled::Ok { replies, completed, .. } => format!("{} replies{}", replies.len(), completed.as_ref().map(|c| format!(", completes attempt #{} as {} with payload of the other's attempt #{}", c.attempt, if c.initiator { "initiator" } else { "responder" }, if c.peer_payload.len() > 4 { c.peer_payload[4] } else { 0 })).unwrap_or_default()),
                }));
                match h {
                    Handled::Err(e) if e.starts_with("panic") => return Err(Violation::new("no-panic", "panic-in-receive", e)),
                    Handled::Ok { replies, completed, .. } => {
                        for r in replies {
                            // empty replies exist (an ignored simultaneous ping is answered by an empty datagram)
                            flight.push((if to == 'A' { 'B' } else { 'A' }, r));
                        }
                        if completed.is_some() {
                            l.count("c05_l1_completions");
                        }
                    }
                    _ => {}
                }
            }
            5 => {
                if !flight.is_empty() {
                    let k = if sweep { 0 } else { l.ch.choose("drop_which", flight.len() as u32) as usize };
                    flight.remove(k);
                    l.count("fault_drop");
                    l.note(|| format!("drop in-flight datagram {}", k));
                }
            }
            _ => {
                let who = if op == 6 { 'A' } else { 'B' };
                l.ticks += 1;
                l.note(|| format!("tick {}", who));
                for d in p.tick(who).map_err(|e| Violation::new("no-panic", "panic-in-tick", e))? {
                    flight.push((if who == 'A' { 'B' } else { 'A' }, d));
                }
            }
        }
        // ---- agreement oracle
        for who in ['A', 'B'] {
            let e = p.end(who);
            let mut per: BTreeMap<u32, u32> = BTreeMap::new();
            for c in &e.completions {
                *per.entry(c.attempt).or_insert(0) += 1;
            }
            if let Some((att, n)) = per.iter().find(|(_, n)| **n > 1) {
                return Err(Violation::new("agreement", "attempt-completed-twice", format!("end {} reported success {} times for its attempt {}", who, n, att)));
            }
        }
        // payloads received are exactly what the other end offered for one of its attempts
        for (who, other) in [('A', 'B'), ('B', 'A')] {
            let next = p.end(other).next_attempt;
            let comps = p.end(who).completions.clone();
            for c in &comps {
                let k = if c.peer_payload.len() >= 5 { u32::from_be_bytes([c.peer_payload[1], c.peer_payload[2], c.peer_payload[3], c.peer_payload[4]]) } else { 0 };
                let offered = pair::payload_for(other, k);
                if k == 0 || k >= next || c.peer_payload != offered {
                    return Err(Violation::new("agreement", "received-payload-not-as-offered", format!("end {} completed attempt {} with a payload the other end never offered ({} bytes)", who, c.attempt, c.peer_payload.len())));
                }
            }
        }
        // matched pair of current connections
        let ca = p.a.peer.as_ref().map(|o| o.attempt).and_then(|att| p.a.completions.iter().rev().find(|c| c.attempt == att).cloned());
        let cb = p.b.peer.as_ref().map(|o| o.attempt).and_then(|att| p.b.completions.iter().rev().find(|c| c.attempt == att).cloned());
        if let (Some(ca), Some(cb)) = (ca, cb) {
            let a_saw = u32::from_be_bytes([ca.peer_payload[1], ca.peer_payload[2], ca.peer_payload[3], ca.peer_payload[4]]);
            let b_saw = u32::from_be_bytes([cb.peer_payload[1], cb.peer_payload[2], cb.peer_payload[3], cb.peer_payload[4]]);
            if a_saw == cb.attempt && b_saw == ca.attempt {
                if checked_pairs.insert((ca.attempt, cb.attempt)) {
                    l.count("c05_l1_matched_pairs_checked");
                    if ca.initiator == cb.initiator {
                        return Err(Violation::new("agreement", "roles-not-complementary", format!("attempts A#{} and B#{} completed with initiator flags {} and {}: not exactly one end starts key rotation", ca.attempt, cb.attempt, ca.initiator, cb.initiator)));
                    }
                    if ca.algorithm != cb.algorithm {
                        return Err(Violation::new("agreement", "ciphers-differ", format!("attempts A#{} and B#{} completed with ciphers {} and {}", ca.attempt, cb.attempt, ca.algorithm, cb.algorithm)));
                    }
                    for (s, r) in [('A', 'B'), ('B', 'A')] {
                        let body = format!("probe-{}-{}", ca.attempt, cb.attempt).into_bytes();
                        if let Some(dg) = p.seal(s, 0, &body) {
                            // a pending re-handshake on the receiver's side would swallow the probe: only check when none is pending
                            if p.end(r).pending.is_none() {
                                let ok = matches!(p.deliver(r, &dg), Handled::Ok { message: Some((0, ref b)), .. } if *b == body);
                                if !ok {
                                    return Err(Violation::new("agreement", "completed-with-different-keys", format!("attempts A#{} and B#{} both completed against each other but a datagram sealed by {} does not open at {}", ca.attempt, cb.attempt, s, r)));
                                }
                            }
                        }
                    }
                }
            } else if a_saw == cb.attempt || b_saw == ca.attempt {
                // one end's current connection was completed against the other's current attempt, but not vice versa
                l.count("c05_l1_half_matched");
            }
        }
        // a B attempt must not have completed against two different A attempts (and vice versa); without
        // encryption nothing binds a replayed peng to one attempt, and nothing needs to
        for (who, other) in if cipher == "plain" { vec![] } else { vec![('A', 'B'), ('B', 'A')] } {
            let mine = p.end(who).completions.clone();
            let theirs = p.end(other).completions.clone();
            for c in &mine {
                let k = u32::from_be_bytes([c.peer_payload[1], c.peer_payload[2], c.peer_payload[3], c.peer_payload[4]]);
                if let Some(t) = theirs.iter().find(|t| t.attempt == k) {
                    let j = u32::from_be_bytes([t.peer_payload[1], t.peer_payload[2], t.peer_payload[3], t.peer_payload[4]]);
                    if j != c.attempt {
                        return Err(Violation::new("agreement", "attempt-completed-against-two-partners", format!("{}#{} completed against {}#{}, which itself completed against {}#{}", who, c.attempt, other, k, who, j)));
                    }
                }
            }
        }
    }
    l.states.push(p.a.completions.len() as u64 * 64 + p.b.completions.len() as u64);
    absorb_activity(l, &p);
    Ok(())
}
