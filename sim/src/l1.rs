//! L1 pair scenarios: C03 (replay window), C04 (nonce uniqueness), C07 (rotation), C06 (negotiation),
//! C05 (handshake agreement). Real PeerCrypto objects, schedules and faults from the Chooser.
use std::collections::{BTreeMap, BTreeSet};

use super::{
    chooser::Chooser,
    io::{self, NonceShape},
    pair::{self, Handled, Pair},
    rng,
    runner::{RunCtx, RunOut, Tier, Violation},
};
use crate::verif::Event;

pub struct L1 {
    pub ch: Chooser,
    pub counters: BTreeMap<&'static str, u64>,
    pub render: Option<Vec<String>>,
    pub log_hash: u64,
    pub sig: u64,
    pub ticks: u64,
    pub states: Vec<u64>,
}

impl L1 {
    pub fn new(ch: Chooser, ctx: &RunCtx) -> Self {
        L1 { ch, counters: BTreeMap::new(), render: if ctx.render { Some(vec![]) } else { None }, log_hash: 0x11, sig: 0, ticks: 0, states: vec![] }
    }

    pub fn count(&mut self, k: &'static str) {
        *self.counters.entry(k).or_insert(0) += 1;
    }

    pub fn count_n(&mut self, k: &'static str, n: u64) {
        *self.counters.entry(k).or_insert(0) += n;
    }

    pub fn note(&mut self, f: impl FnOnce() -> String) {
        if let Some(r) = self.render.as_mut() {
            r.push(f());
        }
    }

    pub fn ev(&mut self, code: u64, data: &[u8]) {
        self.log_hash = rng::mix(self.log_hash, code ^ rng::hash_bytes(data));
        self.sig = rng::mix(self.sig, code & 0xffff);
    }

    pub fn finish(mut self, res: Result<(), Violation>, nontrivial: bool) -> RunOut {
        let trace = std::mem::take(&mut self.ch.trace);
        RunOut {
            violation: res.err(),
            log_hash: self.log_hash,
            sig: self.sig,
            nontrivial,
            sim_ms: self.ticks * 1000,
            counters: self.counters,
            render: self.render,
            trace,
            states: self.states,
            overrun: self.ch.overrun,
            steps: 0,
        }
    }
}

const CIPHERS: [&str; 3] = ["aes128", "aes256", "chacha20"];

fn counter_of(nonce: &[u8; 12]) -> u128 {
    let mut v = 0u128;
    for b in &nonce[1..] {
        v = (v << 8) | *b as u128;
    }
    v
}

/// A datagram produced by an end together with the seal it carries (key fingerprint, nonce)
#[derive(Clone)]
struct Sealed {
    data: Vec<u8>,
    seal: Option<(u64, [u8; 12])>,
    tag: u32,
}

/// collects the Seal probes that an operation of `who` just emitted
fn seals_since(p: &Pair, from: usize, who: char) -> Vec<(u64, [u8; 12])> {
    p.probes[from..].iter().filter_map(|(w, e)| if *w == who { if let Event::Seal { key_fp, nonce, .. } = e { Some((*key_fp, *nonce)) } else { None } } else { None }).collect()
}

fn peer_fps(p: &mut Pair, who: char) -> Option<[u64; 4]> {
    p.end(who).peer.as_ref().and_then(|o| o.pc.verif_core().map(|c| c.verif_key_fps()))
}

fn peer_cur_key(p: &mut Pair, who: char) -> Option<u8> {
    p.end(who).peer.as_ref().and_then(|o| o.pc.verif_core().map(|c| c.verif_current_key()))
}

fn establish(l: &mut L1, seed: u64, algos_a: &[&str], algos_b: &[&str]) -> Result<Pair, Violation> {
    let hooks = io::install_hooks(seed);
    let cfg_a = pair::shared_key_config(algos_a);
    let mut cfg_b = cfg_a.clone();
    cfg_b.algorithms = algos_b.iter().map(|s| s.to_string()).collect();
    let mut p = Pair::new(hooks, &cfg_a, &cfg_b, [600.0, 500.0, 400.0], [600.0, 500.0, 400.0]).map_err(|e| Violation::new("setup", "crypto-setup-failed", e))?;
    if !p.establish() {
        l.count("l1_establish_failed");
        return Err(Violation::new("setup", "clean-handshake-does-not-complete", "a loss-free in-order handshake between two mutually trusting ends did not complete".to_string()));
    }
    Ok(p)
}

// ================================================================ C03

/// Replay window oracle for one direction (sender S -> receiver R), computed from the recorded history only
struct Window {
    /// per key fingerprint: accepted (epoch, counter)
    accepted: BTreeMap<u64, Vec<(u64, u128)>>,
}

impl Window {
    fn max_before(&self, fp: u64, epoch: u64) -> Option<u128> {
        // max counter accepted in epochs <= epoch - 2
        if epoch < 2 {
            return None;
        }
        self.accepted.get(&fp).and_then(|v| v.iter().filter(|(e, _)| *e + 2 <= epoch).map(|(_, c)| *c).max())
    }
}

pub fn c03(seed: u64, ch: Chooser, ctx: &RunCtx) -> RunOut {
    let mut l = L1::new(ch, ctx);
    let res = c03_inner(&mut l, seed, ctx);
    let nt = l.counters.get("c03_deliveries_checked").copied().unwrap_or(0) > 0;
    l.finish(res, nt)
}

pub fn c03_sweep_len(tier: Tier) -> u32 {
    match tier {
        Tier::Quick => 5,
        Tier::Thorough => 7,
    }
}

pub fn c03_sweep_size(tier: Tier) -> u64 {
    7u64.pow(c03_sweep_len(tier))
}

fn c03_inner(l: &mut L1, seed: u64, ctx: &RunCtx) -> Result<(), Violation> {
    let sweep = ctx.index < c03_sweep_size(ctx.tier);
    let cipher = if sweep { CIPHERS[(ctx.index % 3) as usize] } else { *l.ch.pick("cipher", &CIPHERS) };
    let mut p = establish(l, seed, &[cipher], &[cipher])?;
    // direction under test: S seals, R receives
    let (s, r) = if !sweep && l.ch.chance("reverse_direction", 500) { ('B', 'A') } else { ('A', 'B') };
    let mut win = Window { accepted: BTreeMap::new() };
    // datagrams S sealed during the handshake were all accepted once, in order, in epoch 0
    for (w, e) in &p.probes {
        if *w == s {
            if let Event::Seal { key_fp, nonce, .. } = e {
                win.accepted.entry(*key_fp).or_default().push((0, counter_of(nonce)));
            }
        }
    }
    let mut sent: Vec<Sealed> = vec![];
    let mut rot_flight: Vec<(char, Sealed)> = vec![];
    let mut tag = 0u32;
    let steps = if sweep { c03_sweep_len(ctx.tier) } else { 20 + l.ch.choose("steps", 380) };
    let mut idx = ctx.index;
    l.count(if sweep { "c03_sweep_runs" } else { "c03_random_runs" });
    for _ in 0..steps {
        // alphabet: 0 seal next, 1..=5 deliver datagram k (again), 6 tick receiver; random mode adds
        // 7 tick sender, 8 deliver a rotation message, 9 drop one, 10 fast-forward both ends
        let op = if sweep {
            let d = idx % 7;
            idx /= 7;
            d as usize
        } else {
            l.ch.weighted("op", &[6, 3, 3, 3, 2, 2, 6, 2, 2, 1, 1])
        };
        match op {
            0 => {
                tag += 1;
                let from = p.probes.len();
                let mut body = tag.to_be_bytes().to_vec();
                body.extend_from_slice(b"payload");
                if let Some(d) = p.seal(s, 0, &body) {
                    let seal = seals_since(&p, from, s).pop();
                    l.ev(1, &d);
                    sent.push(Sealed { data: d, seal, tag });
                }
            }
            1..=5 => {
                if sent.is_empty() {
                    continue;
                }
                // sweep: datagram index op-1 (if it exists); random: any of the last 5 or any at all
                let k = if sweep {
                    if op - 1 >= sent.len() {
                        continue;
                    }
                    op - 1
                } else if l.ch.chance("any_old", 300) {
                    l.ch.choose("which_old", sent.len() as u32) as usize
                } else {
                    sent.len() - 1 - (l.ch.choose("which_recent", sent.len().min(5) as u32) as usize)
                };
                let dg = sent[k].clone();
                deliver_checked(l, &mut p, &mut win, r, &dg)?;
            }
            6 | 7 => {
                let who = if op == 6 { r } else { s };
                let from = p.probes.len();
                let out = p.tick(who).map_err(|e| Violation::new("no-panic", "panic-in-tick", e))?;
                l.ticks += 1;
                l.ev(2 + (who as u64), &[]);
                let seals = seals_since(&p, from, who);
                for (i, d) in out.into_iter().enumerate() {
                    rot_flight.push((if who == 'A' { 'B' } else { 'A' }, Sealed { data: d, seal: seals.get(i).copied(), tag: 0 }));
                }
            }
            8 => {
                if rot_flight.is_empty() {
                    continue;
                }
                let k = l.ch.choose("rot_which", rot_flight.len() as u32) as usize;
                let (to, dg) = rot_flight.remove(k);
                deliver_rotation(l, &mut p, &mut win, s, r, to, &dg, &mut rot_flight)?;
            }
            9 => {
                if !rot_flight.is_empty() {
                    let k = l.ch.choose("rot_drop", rot_flight.len() as u32) as usize;
                    rot_flight.remove(k);
                    l.count("c03_rotation_messages_dropped");
                }
            }
            _ => {
                // fast-forward: both ends tick, rotation messages delivered at once
                let n = 100 + l.ch.choose("ff_ticks", 200);
                for _ in 0..n {
                    for who in [s, r] {
                        let from = p.probes.len();
                        let out = p.tick(who).map_err(|e| Violation::new("no-panic", "panic-in-tick", e))?;
                        l.ticks += 1;
                        let seals = seals_since(&p, from, who);
                        for (i, d) in out.into_iter().enumerate() {
                            let to = if who == 'A' { 'B' } else { 'A' };
                            let dg = Sealed { data: d, seal: seals.get(i).copied(), tag: 0 };
                            deliver_rotation(l, &mut p, &mut win, s, r, to, &dg, &mut rot_flight)?;
                        }
                    }
                }
                l.count("c03_fast_forwards");
            }
        }
    }
    // key generations crossed
    let gens = win.accepted.len();
    if gens > 1 {
        l.count("c03_runs_across_key_rotation");
    }
    Ok(())
}

fn deliver_rotation(l: &mut L1, p: &mut Pair, win: &mut Window, s: char, r: char, to: char, dg: &Sealed, rot_flight: &mut Vec<(char, Sealed)>) -> Result<(), Violation> {
    if to == r {
        // a rotation message sealed by S is a sealed datagram like any other for R's window
        let before = p.probes.len();
        let h = p.deliver(to, &dg.data);
        l.ev(5, &dg.data);
        if let Handled::Ok { replies, .. } = &h {
            let epoch = p.end(r).ticks;
            if let Some((fp, n)) = dg.seal {
                win.accepted.entry(fp).or_default().push((epoch, counter_of(&n)));
            }
            let seals = seals_since(p, before, to);
            for (i, d) in replies.iter().enumerate() {
                rot_flight.push((s, Sealed { data: d.clone(), seal: seals.get(i).copied(), tag: 0 }));
            }
        }
    } else {
        let _ = p.deliver(to, &dg.data);
        l.ev(6, &dg.data);
    }
    let _ = s;
    Ok(())
}

fn deliver_checked(l: &mut L1, p: &mut Pair, win: &mut Window, r: char, dg: &Sealed) -> Result<(), Violation> {
    let (fp, nonce) = match dg.seal {
        Some(x) => x,
        None => return Ok(()),
    };
    let c = counter_of(&nonce);
    let key_id = dg.data[0] % 4;
    let holds = peer_fps(p, r).map(|f| f[key_id as usize] == fp).unwrap_or(false);
    let epoch = p.end(r).ticks;
    let m = win.max_before(fp, epoch);
    let h = p.deliver(r, &dg.data);
    l.ev(4, &dg.data);
    let accepted = match &h {
        Handled::Ok { message: Some((0, body)), .. } => {
            if body.len() < 4 || body[..4] != dg.tag.to_be_bytes() {
                return Err(Violation::new("byte-identical", "opened-payload-differs", format!("datagram #{} opened to different bytes", dg.tag)));
            }
            true
        }
        Handled::Ok { .. } => false,
        Handled::Err(e) if e.starts_with("panic") => return Err(Violation::new("no-panic", "panic-in-receive", e.clone())),
        Handled::Err(_) => false,
    };
    l.count("c03_deliveries_checked");
    if !holds {
        l.count("c03_key_generation_gone");
        if accepted {
            return Err(Violation::new("replay-window", "accepted-under-overwritten-key", format!("datagram #{} sealed under a key the receiver no longer holds was accepted", dg.tag)));
        }
        return Ok(());
    }
    let must_reject = matches!(m, Some(mx) if c <= mx);
    if must_reject {
        l.count("c03_expected_reject");
    } else {
        l.count("c03_expected_accept");
    }
    l.note(|| format!("deliver #{} (counter ...{:x}) in epoch {}: expect {}, got {}", dg.tag, c & 0xffff, epoch, if must_reject { "reject" } else { "accept" }, if accepted { "accept" } else { "reject" }));
    if must_reject && accepted {
        return Err(Violation::new(
            "replay-window",
            "replay-accepted-after-two-ticks",
            format!("datagram #{} (counter {:x}) was accepted in receiver epoch {} although a datagram with counter {:x} had been accepted two or more ticks earlier", dg.tag, c, epoch, m.unwrap()),
        ));
    }
    if !must_reject && !accepted {
        return Err(Violation::new(
            "replay-window",
            "fresh-or-in-window-datagram-rejected",
            format!("datagram #{} (counter {:x}) was rejected in receiver epoch {} although nothing at least as new had been accepted before the previous tick (max before: {:?})", dg.tag, c, epoch, m),
        ));
    }
    if accepted {
        win.accepted.entry(fp).or_default().push((epoch, c));
    }
    Ok(())
}

// ================================================================ C07 + C04 (whole connection lifetimes)

struct SealLog {
    /// (end, key fp, nonce)
    seen: BTreeSet<(u64, [u8; 12])>,
    last: BTreeMap<(char, u64), [u8; 12]>,
    halves: BTreeMap<u64, BTreeMap<char, u8>>,
    starts: Vec<[u8; 12]>,
    start_of: BTreeMap<(char, u64), [u8; 12]>,
    checked: usize,
}

impl SealLog {
    fn new() -> Self {
        SealLog { seen: BTreeSet::new(), last: BTreeMap::new(), halves: BTreeMap::new(), starts: vec![], start_of: BTreeMap::new(), checked: 0 }
    }

    /// consumes new probes; checks uniqueness, monotonicity, disjoint halves
    fn absorb(&mut self, l: &mut L1, p: &Pair) -> Result<(), Violation> {
        for (who, e) in &p.probes[self.checked..] {
            match e {
                Event::Seal { key_fp, nonce, .. } => {
                    l.count("c04_seals_logged");
                    if !self.seen.insert((*key_fp, *nonce)) {
                        return Err(Violation::new("nonce-unique", "key-nonce-pair-reused", format!("end {} sealed a second datagram under key {:016x} with nonce {:02x?}", who, key_fp, nonce)));
                    }
                    if !self.last.contains_key(&(*who, *key_fp)) {
                        // the first seal under a key uses the drawn start value + 1: a fresh, unpredictable sequence
                        if let Some(st) = self.start_of.get(&(*who, *key_fp)) {
                            let mut exp = *st;
                            for i in (0..12).rev() {
                                exp[i] = exp[i].wrapping_add(1);
                                if exp[i] != 0 {
                                    break;
                                }
                            }
                            l.count("c04_first_seal_checked");
                            if *nonce != exp {
                                return Err(Violation::new("nonce-start", "first-seal-not-at-drawn-start", format!("end {} key {:016x}: first seal uses nonce {:02x?} but the key was initialised at {:02x?}", who, key_fp, nonce, st)));
                            }
                        }
                    }
                    if let Some(prev) = self.last.get(&(*who, *key_fp)) {
                        if nonce <= prev {
                            return Err(Violation::new("nonce-unique", "counter-not-increasing", format!("end {} key {:016x}: nonce {:02x?} after {:02x?}", who, key_fp, nonce, prev)));
                        }
                    }
                    self.last.insert((*who, *key_fp), *nonce);
                    let h = self.halves.entry(*key_fp).or_default();
                    h.insert(*who, nonce[0]);
                    if h.len() == 2 {
                        let v: Vec<u8> = h.values().copied().collect();
                        l.count("c04_both_ends_sealed_under_one_key");
                        if v[0] == v[1] {
                            return Err(Violation::new("nonce-halves", "both-ends-same-nonce-half", format!("both ends seal under key {:016x} with top nonce byte {:02x}", key_fp, v[0])));
                        }
                    }
                    // carry probes
                    if nonce[11] == 0 {
                        l.count("c04_low_byte_carry");
                        if nonce[10] == 0 {
                            l.count("c04_two_byte_carry");
                        }
                    }
                }
                Event::NonceStart { nonce, key_fp } => {
                    self.starts.push(*nonce);
                    self.start_of.insert((*who, *key_fp), *nonce);
                    self.last.remove(&(*who, *key_fp));
                }
                _ => {}
            }
        }
        self.checked = p.probes.len();
        Ok(())
    }
}

pub fn c07(seed: u64, ch: Chooser, ctx: &RunCtx) -> RunOut {
    let mut l = L1::new(ch, ctx);
    let res = lifetime(&mut l, seed, ctx, true);
    let nt = l.counters.get("c07_probes_checked").copied().unwrap_or(0) > 0;
    l.finish(res, nt)
}

pub fn c04(seed: u64, ch: Chooser, ctx: &RunCtx) -> RunOut {
    let mut l = L1::new(ch, ctx);
    let res = lifetime(&mut l, seed, ctx, false);
    let nt = l.counters.get("c04_seals_logged").copied().unwrap_or(0) > 10;
    l.finish(res, nt)
}

/// One connection lifetime: handshake, then independent ticking of both ends with rotation messages
/// subject to loss / duplication / reordering / delay; after every step a probe in both directions.
fn lifetime(l: &mut L1, seed: u64, ctx: &RunCtx, c07_focus: bool) -> Result<(), Violation> {
    let cipher = *l.ch.pick("cipher", &CIPHERS);
    // C04: nonce starts shaped to sit shortly below a carry boundary in half of the runs
    let shape = if !c07_focus && l.ch.chance("near_carry", 600) {
        let carry_bytes = 1 + l.ch.choose("carry_bytes", 6) as u8;
        let distance = l.ch.choose("carry_distance", 300) as u16;
        Some(NonceShape::NearCarry { carry_bytes, distance })
    } else {
        None
    };
    let hooks = io::install_hooks(seed);
    if let Some(s) = shape {
        hooks.borrow_mut().nonce_shape = s;
        l.count("c04_nonce_start_near_carry");
    }
    let cfg_a = pair::shared_key_config(&[cipher]);
    let cfg_b = cfg_a.clone();
    let mut p = Pair::new(hooks.clone(), &cfg_a, &cfg_b, [600.0, 500.0, 400.0], [600.0, 500.0, 400.0]).map_err(|e| Violation::new("setup", "crypto-setup-failed", e))?;
    let mut log = SealLog::new();
    // handshake: clean, or dual open with reordering (half assignment must hold for every schedule)
    let dual = l.ch.chance("dual_open", 400);
    let mut flight: Vec<(char, Vec<u8>)> = vec![];
    if let Some(d) = p.dial('A', false) {
        flight.push(('B', d));
    }
    if dual {
        if let Some(d) = p.dial('B', false) {
            flight.push(('A', d));
        }
        l.count("l1_dual_open");
    }
    let mut guard = 0;
    while !flight.is_empty() && guard < 60 {
        guard += 1;
        let k = if dual { l.ch.choose("hs_which", flight.len() as u32) as usize } else { 0 };
        let (to, d) = flight.remove(k);
        if dual && l.ch.chance("hs_dup", 100) {
            flight.push((to, d.clone()));
        }
        if let Handled::Ok { replies, .. } = p.deliver(to, &d) {
            for r in replies {
                if !r.is_empty() {
                    flight.push((if to == 'A' { 'B' } else { 'A' }, r));
                }
            }
        }
        log.absorb(l, &p)?;
        // retransmissions
        if flight.is_empty() && !(p.a.peer.is_some() && p.b.peer.is_some() && p.a.pending.is_none() && p.b.pending.is_none()) {
            for who in ['A', 'B'] {
                for d in p.tick(who).map_err(|e| Violation::new("no-panic", "panic-in-tick", e))? {
                    flight.push((if who == 'A' { 'B' } else { 'A' }, d));
                }
            }
        }
    }
    if !(p.a.peer.is_some() && p.b.peer.is_some()) {
        l.count("l1_establish_failed");
        return Ok(());
    }
    // the generator's bytes must be what the keys start with (checked below through NonceStart probes)
    let mut rot: Vec<(char, Vec<u8>, u64)> = vec![]; // (to, datagram, not before step)
    let total_ticks = match (ctx.tier, c07_focus) {
        (Tier::Quick, _) => 300 + l.ch.choose("ticks", 1200) as u64,
        (Tier::Thorough, _) => 300 + l.ch.choose("ticks", 3700) as u64,
    };
    // fault shape for rotation messages
    let loss = if l.ch.chance("use_loss", 500) { *l.ch.pick("loss_pm", &[100u32, 300, 600]) } else { 0 };
    let dup = if l.ch.chance("use_dup", 400) { *l.ch.pick("dup_pm", &[100u32, 400]) } else { 0 };
    let delay = if l.ch.chance("use_delay", 400) { *l.ch.pick("delay_ticks", &[50u64, 200, 600]) } else { 0 };
    // relative rates: one end may run slower (drift) or stall for a while
    let slow_b = if l.ch.chance("drift", 300) { 1 + l.ch.choose("drift_every", 20) as u64 } else { 0 };
    let fault_until = total_ticks * l.ch.choose("fault_share", 4) as u64 / 4;
    let mut tag = 0u32;
    let mut key_changes: BTreeMap<char, Vec<u64>> = BTreeMap::new();
    let mut last_key: BTreeMap<char, Option<u8>> = BTreeMap::new();
    let mut t = 0u64;
    while t < total_ticks {
        t += 1;
        l.ticks += 1;
        let faults_on = t <= fault_until;
        // which ends tick in this round
        let mut order = vec!['A', 'B'];
        if l.ch.chance("swap_order", 500) {
            order.reverse();
        }
        for who in order {
            if who == 'B' && slow_b > 0 && t % slow_b == 0 && faults_on {
                continue; // B skips a tick: relative drift
            }
            let out = p.tick(who).map_err(|e| Violation::new("no-panic", "panic-in-tick", e))?;
            l.ev(10 + who as u64, &[]);
            for d in out {
                let to = if who == 'A' { 'B' } else { 'A' };
                l.count("c07_rotation_messages_sent");
                if faults_on && l.ch.chance("rot_loss", loss) {
                    l.count("fault_drop");
                    continue;
                }
                let nb = if faults_on && delay > 0 && l.ch.chance("rot_delay", 300) {
                    l.count("fault_delay");
                    p.step + l.ch.choose("rot_delay_ticks", delay as u32) as u64 * 3
                } else {
                    0
                };
                if faults_on && l.ch.chance("rot_dup", dup) {
                    l.count("fault_dup");
                    rot.push((to, d.clone(), nb + 5));
                }
                rot.push((to, d, nb));
            }
            log.absorb(l, &p)?;
            // deliver what is due (random order among the due ones = reordering)
            loop {
                let due: Vec<usize> = (0..rot.len()).filter(|i| rot[*i].2 <= p.step).collect();
                if due.is_empty() {
                    break;
                }
                let k = due[l.ch.choose("rot_order", due.len() as u32) as usize];
                if k != due[0] {
                    l.count("fault_reorder");
                }
                let (to, d, _) = rot.remove(k);
                match p.deliver(to, &d) {
                    Handled::Err(e) if e.starts_with("panic") => return Err(Violation::new("no-panic", "panic-in-receive", e)),
                    Handled::Ok { replies, .. } => {
                        for r2 in replies {
                            if !r2.is_empty() {
                                rot.push((if to == 'A' { 'B' } else { 'A' }, r2, 0));
                            }
                        }
                    }
                    _ => {}
                }
                l.ev(20, &d);
                log.absorb(l, &p)?;
            }
            // after every step: fresh payload sealed by each end opens at the other, byte-identical
            for (s, r) in [('A', 'B'), ('B', 'A')] {
                tag += 1;
                let mut body = tag.to_be_bytes().to_vec();
                body.extend_from_slice(b"probe");
                let cur = peer_cur_key(&mut p, s);
                let dg = match p.seal(s, 0, &body) {
                    Some(d) => d,
                    None => return Err(Violation::new("rotation", "cannot-seal", format!("end {} cannot seal at tick {}", s, t))),
                };
                let ok = matches!(p.deliver(r, &dg), Handled::Ok { message: Some((0, ref b)), .. } if *b == body);
                l.count("c07_probes_checked");
                if !ok {
                    let fps_s = peer_fps(&mut p, s);
                    let fps_r = peer_fps(&mut p, r);
                    return Err(Violation::new(
                        "rotation",
                        "fresh-payload-not-decryptable",
                        format!("tick {}: a datagram freshly sealed by {} with key id {:?} does not open at {} (sender slots {:016x?}, receiver slots {:016x?})", t, s, cur, r, fps_s, fps_r),
                    ));
                }
                let lk = last_key.entry(s).or_insert(cur);
                if *lk != cur {
                    *lk = cur;
                    key_changes.entry(s).or_default().push(t);
                    l.count("c07_sealing_key_changes");
                }
            }
            log.absorb(l, &p)?;
        }
    }
    // freshness: in the fault-free suffix the sealing key of each direction changes at least once per
    // 2 rotation intervals (+1 tick), after a recovery allowance of 4 intervals
    const INTERVAL: u64 = 120;
    let start = fault_until + 4 * INTERVAL;
    if total_ticks > start + 2 * INTERVAL + 1 {
        for who in ['A', 'B'] {
            let ch = key_changes.get(&who).cloned().unwrap_or_default();
            let mut from = start;
            while from + 2 * INTERVAL + 1 <= total_ticks {
                let hit = ch.iter().any(|c| *c > from && *c <= from + 2 * INTERVAL + 1);
                l.count("c07_freshness_windows_checked");
                if !hit {
                    return Err(Violation::new(
                        "freshness",
                        "sealing-key-not-replaced-in-two-intervals",
                        format!("end {} kept its sealing key from tick {} to {} although rotation messages were delivered reliably since tick {} (key changes at {:?})", who, from, from + 2 * INTERVAL + 1, fault_until, ch),
                    ));
                }
                from += INTERVAL;
            }
        }
    }
    // C04 (d): every key's first nonce carries the generator's bytes, in order of creation
    let fills: Vec<Vec<u8>> = p.hooks.borrow().nonce_fills.clone();
    if log.starts.len() != fills.len() {
        return Err(Violation::new("nonce-start", "nonce-start-not-from-generator", format!("{} keys were initialised but the generator was asked {} times for a nonce start", log.starts.len(), fills.len())));
    }
    for (i, s) in log.starts.iter().enumerate() {
        if s[6..] != fills[i][..] || s[1..6] != [0, 0, 0, 0, 0] || (s[0] != 0 && s[0] != 0x80) {
            return Err(Violation::new("nonce-start", "nonce-start-not-from-generator", format!("key #{} starts at nonce {:02x?} but the generator handed out {:02x?}", i, s, fills[i])));
        }
    }
    l.count_n("c04_nonce_starts_checked", log.starts.len() as u64);
    if !c07_focus && l.ch.chance("counter_limit", 500) {
        counter_limit(l, &mut p, &mut log)?;
    }
    l.states.push(log.seen.len() as u64 ^ (key_changes.values().map(|v| v.len() as u64).sum::<u64>() << 32));
    Ok(())
}

/// Places the send counter of A within reach of the 56 bit limit: beyond it B opens nothing, and no
/// (key, nonce) pair repeats
fn counter_limit(l: &mut L1, p: &mut Pair, log: &mut SealLog) -> Result<(), Violation> {
    let below = 1 + l.ch.choose("below_limit", 40) as u64;
    let cur = p.a.peer.as_ref().and_then(|o| o.pc.verif_core().map(|c| c.verif_send_nonce()));
    let mut n = match cur {
        Some(n) => n,
        None => return Ok(()),
    };
    // transmitted part: bytes 5..12 (56 bits); place it at 2^56 - below
    let v: u64 = (1u64 << 56) - below;
    let vb = v.to_be_bytes();
    n[5..12].copy_from_slice(&vb[1..8]);
    n[1..5].copy_from_slice(&[0, 0, 0, 0]);
    if let Some(o) = p.a.peer.as_mut() {
        if let Some(c) = o.pc.verif_core_mut() {
            c.verif_set_send_nonce(n);
        }
    }
    l.count("c04_counter_placed_near_56_bit_limit");
    let mut tag = 0x7000_0000u32;
    for i in 0..(below + 40) {
        tag += 1;
        let body = tag.to_be_bytes().to_vec();
        let from = p.probes.len();
        let dg = match p.seal('A', 0, &body) {
            Some(d) => d,
            None => break,
        };
        let seal = seals_since(p, from, 'A').pop();
        log.absorb(l, p)?;
        let opened = matches!(p.deliver('B', &dg), Handled::Ok { message: Some((0, ref b)), .. } if *b == body);
        let past = match seal {
            Some((_, nn)) => nn[1..5] != [0, 0, 0, 0],
            None => false,
        };
        if past {
            l.count("c04_seals_past_56_bit_limit");
            if opened {
                return Err(Violation::new("counter-limit", "datagram-past-56-bit-limit-opened", format!("seal #{} after placement: the counter no longer fits 56 bits but the peer opened the datagram", i)));
            }
        } else if !opened {
            return Err(Violation::new("counter-limit", "datagram-below-56-bit-limit-rejected", format!("seal #{} after placement: counter still fits 56 bits but the peer rejected the datagram", i)));
        }
    }
    Ok(())
}
