//! C05 (node level) - handshake recovers under loss, duplication, reordering, delay, dual open
use super::{
    chooser::Chooser,
    mesh::{self, finish, panic_violation},
    runner::{RunCtx, RunOut, Scenario, Tier, Violation},
    world::{Step, World},
};
use crate::verif::Event;

pub struct C05;

/// 120 retries x 2 s housekeeping period
pub const RETRY_HORIZON_S: u64 = 240;

fn guard(w: &World, st: &Step) -> Result<(), Violation> {
    match panic_violation(w, st, "C05") {
        Some(v) => Err(v),
        None => Ok(()),
    }
}

/// Sends one probe frame from a to b and reports whether b's interface got exactly those bytes
pub fn probe_crosses(w: &mut World, a: usize, b: usize, counter: &mut u32, wait_ms: u64) -> Result<bool, Violation> {
    *counter += 1;
    let m = mesh::marker(w, *counter);
    let f = mesh::ipv4_packet(mesh::tun_ip(a), mesh::tun_ip(b), &m);
    let first = w.dev_writes.len();
    let now = w.now_ms;
    w.schedule_frame(now + 1, a, f.clone());
    let until = w.now_ms + wait_ms;
    let mut err = None;
    while let Some(st) = w.step(until) {
        if let Err(v) = guard(w, &st) {
            err = Some(v);
            break;
        }
    }
    if let Some(v) = err {
        return Err(v);
    }
    Ok(w.dev_writes[first..].iter().any(|d| d.node == b && d.data == f))
}

fn scenario(w: &mut World, ctx: &RunCtx, states: &mut Vec<u64>) -> Result<(), Violation> {
    let k = w.add_key(None);
    let n = 2 + w.ch.weighted("third_node", &[2, 1]);
    let fam = w.ch.choose("addr_family", 2) as u8;
    let timeout = *w.ch.pick("peer_timeout", &[300u32, 120, 60, 180]);
    for i in 0..n {
        let mut c = mesh::tun_node(i);
        c.key = k;
        c.peer_timeout = timeout;
        c.tick_phase_ms = w.ch.choose("tick_phase", 1000) as u64;
        w.add_node(c, fam);
    }
    // every pair is configured in one or both directions (dual open when both)
    for i in 0..n {
        for j in 0..i {
            match w.ch.choose("orientation", 3) {
                0 => {
                    let t = mesh::peer_text(w, j);
                    w.nodes[i].cfg.peers.push(t)
                }
                1 => {
                    let t = mesh::peer_text(w, i);
                    w.nodes[j].cfg.peers.push(t)
                }
                _ => {
                    let t = mesh::peer_text(w, j);
                    w.nodes[i].cfg.peers.push(t);
                    let t = mesh::peer_text(w, i);
                    w.nodes[j].cfg.peers.push(t);
                    w.count("c05_dual_open_configured");
                }
            }
        }
    }
    // fault shape: each kind is off in about half of the runs
    let fault_s = match w.ch.weighted("fault_phase", &[1, 3, 3, 2]) {
        0 => 0,
        1 => 5 + w.ch.choose("fault_s", 60) as u64,
        2 => 60 + w.ch.choose("fault_s", 240) as u64,
        _ => 300 + w.ch.choose("fault_s", 600) as u64,
    };
    if fault_s > 0 {
        if w.ch.chance("use_loss", 500) {
            w.net.loss_pm = *w.ch.pick("loss_pm", &[100, 300, 500, 800, 1000]);
        }
        if w.ch.chance("use_dup", 500) {
            w.net.dup_pm = *w.ch.pick("dup_pm", &[50, 200, 500]);
        }
        if w.ch.chance("use_delay", 500) {
            w.net.big_delay_pm = *w.ch.pick("delay_pm", &[50, 200, 500]);
            w.net.big_delay_max_ms = *w.ch.pick("delay_max", &[2_000, 10_000, 90_000]);
        }
        if w.ch.chance("use_jitter", 300) {
            w.net.jitter_ms = *w.ch.pick("jitter_max", &[200, 1500, 5000]);
        }
        if w.ch.chance("use_send_faults", 300) {
            w.net.send_fault_pm = *w.ch.pick("send_fault_pm", &[20, 100]);
        }
    }
    let use_partitions = fault_s > 0 && w.ch.chance("use_partitions", 400);
    let use_stall = fault_s > 0 && w.ch.chance("use_stall", 200);
    // nodes may start at different times (so that a ping meets a node that is not there yet)
    for i in 0..n {
        let delay = if w.ch.chance("late_start", 300) { w.ch.choose("start_delay_ms", 20_000) as u64 } else { 0 };
        w.schedule_action(delay, 1, i as u64);
    }
    let fault_end = fault_s * 1000;
    let mut next_partition_change = 0u64;
    // fault phase
    loop {
        let st = match w.step(fault_end.max(1)) {
            Some(st) => st,
            None => break,
        };
        guard(w, &st)?;
        if let super::world::StepKind::Action(1, i) = st.kind {
            let s = w.start_node(i as usize);
            guard(w, &s)?;
        }
        if use_partitions && w.now_ms >= next_partition_change && w.now_ms < fault_end {
            next_partition_change = w.now_ms + 1000 + w.ch.choose("partition_hold_ms", 120_000) as u64;
            if w.ch.chance("heal", 400) {
                w.heal_all();
            } else {
                let a = w.ch.choose("part_a", n as u32) as usize;
                let b = (a + 1 + w.ch.choose("part_b", n as u32 - 1) as usize) % n;
                let both = w.ch.chance("part_both", 600);
                w.partition(a, b, both);
                if !both {
                    w.count("c05_one_way_partition");
                }
            }
        }
        if use_stall && w.ch.chance("stall_now", 2) {
            let a = w.ch.choose("stall_node", n as u32) as usize;
            let ms = 1000 + w.ch.choose("stall_ms", 60_000) as u64;
            w.stall_node(a, ms);
        }
        for ev in &st.probes {
            if let Event::HandshakeDone { .. } = ev {
                w.count("c05_handshakes_completed");
            }
        }
    }
    // all nodes must be started by now
    for i in 0..n {
        if !w.is_up(i) && w.nodes[i].incarnation == 0 {
            let s = w.start_node(i);
            guard(w, &s)?;
        }
    }
    // reliable phase
    w.net.enabled = false;
    w.net.send_fault_pm = 0;
    w.net.jitter_ms = 20;
    w.heal_all();
    let faults_end = w.last_fault_ms.max(w.now_ms);
    w.note(|| format!("faults stop (last delayed datagram lands at t={:.1})", faults_end as f64 / 1000.0));
    states.push(mesh::abstract_state(w));
    // slack: the reconnect back-off reached during the fault phase
    let mut backoff = 0u64;
    for i in 0..n {
        if let Some(s) = w.snapshot(i) {
            for r in &s.reconnect {
                backoff = backoff.max(r.timeout as u64);
            }
        }
    }
    // retry horizon: a handshake object gives up after 120 housekeeping rounds, and the event loop runs
    // housekeeping every other second (`next_housekeep < now` with next_housekeep = now + 1): 240 s.
    // The back-off of a configured peer keeps doubling while dials fail, hence 2 x the value reached now.
    let bound_s = timeout as u64 + RETRY_HORIZON_S + 10 + 2 * backoff;
    let deadline = faults_end + bound_s * 1000;
    let pairs = mesh::all_pairs(n);
    let mut connected_at = None;
    loop {
        if pairs.iter().all(|(a, b)| w.is_connected(*a, *b)) {
            connected_at = Some(w.now_ms);
            break;
        }
        if w.now_ms >= deadline {
            break;
        }
        let until = (w.now_ms + 1000).min(deadline);
        while let Some(st) = w.step(until) {
            guard(w, &st)?;
        }
    }
    states.push(mesh::abstract_state(w));
    w.count("c05_liveness_checked");
    if fault_s > 0 && w.counters.keys().any(|k| k.starts_with("fault_")) {
        w.count("c05_liveness_checked_after_faults");
    }
    let connected_at = match connected_at {
        Some(t) => t,
        None => {
            let missing: Vec<String> = pairs.iter().filter(|(a, b)| !w.is_connected(*a, *b)).map(|(a, b)| format!("n{}->n{}", a, b)).collect();
            return Err(Violation::new(
                "liveness",
                "not-connected-within-bound",
                format!("{} s after the last fault (bound: peer timeout {} + retry horizon 240 + 10 + 2 x back-off {}) these pairs are still not connected: {}{}", bound_s, timeout, backoff, missing.join(", "), mesh::dump_state(w)),
            ));
        }
    };
    if connected_at > faults_end + 30_000 {
        w.count("c05_recovery_took_over_30s");
    }
    // payload in both directions, still within the bound
    let mut counter = 0u32;
    // give node info a moment to install claims
    let until = w.now_ms + 1_500;
    w.run_until(until, |w, st| guard(w, st))?;
    for (a, b) in &pairs {
        let mut ok = false;
        // the connection may be replaced once more by a lingering attempt: retry until the deadline
        loop {
            if probe_crosses(w, *a, *b, &mut counter, 300)? {
                ok = true;
                break;
            }
            if w.now_ms >= deadline + 2_000 {
                break;
            }
            let until = w.now_ms + 2_000;
            w.run_until(until, |w, st| guard(w, st))?;
        }
        if !ok {
            return Err(Violation::new(
                "liveness",
                "payload-does-not-cross-within-bound",
                format!("n{} and n{} list each other as peers but a probe frame n{}->n{} is still not delivered {} s after the last fault", a, b, a, b, (w.now_ms.saturating_sub(faults_end)) / 1000),
            ));
        }
    }
    w.count("c05_payload_checked");
    let _ = ctx;
    Ok(())
}

impl Scenario for C05 {
    fn id(&self) -> &'static str {
        "C05"
    }

    fn run(&self, seed: u64, ch: Chooser, ctx: &RunCtx) -> RunOut {
        // two thirds of the runs are pair-level agreement schedules (the sweep first), one third node-level liveness
        if ctx.index % 3 != 0 {
            let l1_index = ctx.index - ctx.index / 3 - 1;
            return super::l1::c05(seed, ch, ctx, l1_index);
        }
        let mut w = mesh::new_world(seed, ch, ctx);
        let mut states = vec![];
        let res = scenario(&mut w, ctx, &mut states);
        let nontrivial = w.counters.get("c05_liveness_checked_after_faults").copied().unwrap_or(0) > 0;
        finish(w, res, nontrivial, states)
    }

    fn budget(&self, tier: Tier) -> (u64, u64) {
        match tier {
            Tier::Quick => (9000, 120),
            Tier::Thorough => (600_000, 1500),
        }
    }

    fn rule(&self) -> &'static str {
        "two thirds of the runs, pair level (safety): two real PeerCrypto ends behind a replica of the node's per-address routing; the first 8^4 of them (thorough: 8^6) are a seed-indexed sweep over all schedules of that length over {A initiates, B initiates, deliver oldest, deliver newest, deliver a duplicate, drop, tick A, tick B}, the rest random schedules of 10-200 steps (any in-flight datagram, forced re-dials); oracle after every step: an attempt reports success at most once, each end received exactly a payload the other offered, an attempt never completes against two partners, and when the two current connections were completed against each other: complementary initiator flags (exactly one starts rotation), equal ciphers, each opens what the other seals. One third of the runs, node level (liveness): 2-3 real nodes, every pair configured in one or both directions (dual open), staggered starts; a fault phase of 0-900 s with a per-run subset of {loss 10-100 %, duplication, delay up to 90 s, jitter up to 5 s, one- and two-way partitions with heals, node stalls, send errors}, then a reliable phase; oracle: all pairs mutually connected and a probe frame delivered in both directions within peer timeout + retry horizon (120 retries x 2 s housekeeping period = 240 s) + 10 s slack + 2 x the reconnect back-off reached when faults stop, after the last fault (including the landing time of the last delayed datagram). Non-trivial: at least one fault fired before the liveness check. Distinct = distinct event-sequence hashes."
    }

    fn expected_probes(&self) -> Vec<&'static str> {
        vec!["c05_l1_matched_pairs_checked", "c05_l1_sweep_runs", "c05_l1_completions", "c05_liveness_checked_after_faults", "c05_payload_checked", "c05_dual_open_configured", "c05_one_way_partition", "c05_recovery_took_over_30s", "fault_drop", "fault_dup", "fault_delay_gt_1s", "fault_partition", "fault_stall", "fault_send_error"]
    }
}
