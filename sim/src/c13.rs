//! C13 - see fwd.rs (forwarding family)
use super::{
    chooser::Chooser,
    fwd::{self, Focus},
    runner::{RunCtx, RunOut, Scenario, Tier},
};

pub struct C13;

impl Scenario for C13 {
    fn id(&self) -> &'static str {
        "C13"
    }

    fn run(&self, seed: u64, ch: Chooser, ctx: &RunCtx) -> RunOut {
        fwd::run(Focus::C13, seed, ch, ctx)
    }

    fn budget(&self, tier: Tier) -> (u64, u64) {
        match tier {
            Tier::Quick => (6000, 120),
            Tier::Thorough => (120_000, 1500),
        }
    }

    fn rule(&self) -> &'static str {
        "3-5 tap nodes in switch/normal, hub and router mode; frames over a universe of MACs x VLAN tags {none, 0, 1, 0x67, 0xfff} x all 16 PCP/DEI nibbles x nested tags, interleaved with time steps of 0/1/switch timeout -1,+0,+1 (switch timeout 2..300 s), disconnects and restarts; reference learning table (VLAN-normalised source -> (peer, learned at), VLAN 0 = untagged) updated on every device write; oracle per interface read: destination goes to exactly the learned peer while the entry is live, to all peers once it is expired and swept, either inside the sweep granularity; hub and router never learn. Non-trivial: at least one lookup in a learning or non-learning tap mesh was checked."
    }

    fn expected_probes(&self) -> Vec<&'static str> {
        vec!["c13_lookups_checked", "c13_addresses_learned", "c13_learned_entry_live", "fwd_time_steps", "fwd_shape_tap_hub"]
    }
}
