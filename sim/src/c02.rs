//! C02 - payload travels sealed: confidential, tamper-evident, delivered byte-identical
use std::collections::BTreeMap;

use super::{
    c08::snap_equal_ignoring_counters,
    chooser::Chooser,
    mesh::{self, finish, panic_violation},
    rng::Rng,
    runner::{RunCtx, RunOut, Scenario, Tier, Violation},
    world::{Cause, Origin, Step, StepKind, World},
};
use crate::verif::NodeSnapshot;

pub struct C02;

fn guard(w: &World, st: &Step) -> Result<(), Violation> {
    match panic_violation(w, st, "C02") {
        Some(v) => Err(v),
        None => Ok(()),
    }
}

const CIPHER_CFGS: [&[&str]; 7] = [&[], &["aes128"], &["aes256"], &["chacha20"], &["plain"], &["plain", "aes256"], &["chacha20", "aes128"]];

fn allows_plain(cfg: &[String]) -> bool {
    cfg.iter().any(|a| a == "plain")
}

struct State {
    snaps: Vec<Option<NodeSnapshot>>,
    /// wire id of a tampered datagram -> description
    tampered: BTreeMap<usize, &'static str>,
    frames_sent: BTreeMap<u32, (usize, usize, Vec<u8>)>,
}

fn after_step(w: &mut World, s: &mut State, st: &Step) -> Result<(), Violation> {
    guard(w, st)?;
    let i = match st.node {
        Some(i) => i,
        None => return Ok(()),
    };
    let pre = s.snaps[i].take();
    let post = w.snapshot(i);
    if let StepKind::Deliver { wire, accepted: true, .. } = st.kind {
        let origin = w.wire[wire].origin.clone();
        let genuine = matches!(origin, Origin::Genuine | Origin::Duplicate(_));
        // (b) whatever is written was read from an interface by the peer that sent this very datagram
        if st.writes > 0 && w.wire[wire].from_node == Some(i) {
            return Err(Violation::new("tamper-evident", "own-datagram-delivered-to-own-interface", format!("n{} wrote {} frame(s) to its interface for a datagram it had sealed itself and that came back to it", i, st.writes)));
        }
        for k in 0..st.writes {
            w.count("c02_device_writes_checked");
            let dw = &w.dev_writes[st.first_write + k];
            let ok = genuine
                && match w.wire[wire].cause {
                    Cause::Dev(f) => *w.frames[f].data == dw.data,
                    _ => false,
                };
            if !ok {
                let what = match &origin {
                    Origin::Adversary(t) => t,
                    Origin::Corrupted(_, how) => how,
                    _ => "genuine-but-different-bytes",
                };
                return Err(Violation::new(
                    "tamper-evident",
                    format!("delivered-from-{}", what),
                    format!("n{} wrote {} bytes to its interface for a datagram that is not an unmodified copy of a sealed frame ({}): {:02x?}...", i, dw.data.len(), what, &dw.data[..dw.data.len().min(24)]),
                ));
            }
        }
        // (c) altered / truncated / reflected / redirected / injected datagrams change nothing and get no reply
        if let Some(what) = s.tampered.get(&wire).copied() {
            w.count("c02_tampered_delivered");
            if let (Some(pre), Some(post)) = (&pre, &post) {
                if pre.next_housekeep == post.next_housekeep {
                    if let Some(diff) = snap_equal_ignoring_counters(pre, post) {
                        return Err(Violation::new("tamper-evident", format!("state-changed-by-{}", what), format!("a {} datagram changed the state of n{}: {}", what, i, diff)));
                    }
                    if !st.sent.is_empty() {
                        return Err(Violation::new("tamper-evident", format!("reply-to-{}", what), format!("n{} replied to a {} datagram", i, what)));
                    }
                }
            }
        }
    }
    s.snaps[i] = post;
    Ok(())
}

fn scenario(w: &mut World, ctx: &RunCtx, states: &mut Vec<u64>) -> Result<(), Violation> {
    let k = w.add_key(None);
    let n = 2 + w.ch.choose("third_node", 2) as usize;
    let fam = w.ch.choose("addr_family", 2) as u8;
    let sweep_len = (ctx.index % 301) as usize;
    let x = mesh::unknown_addr(3);
    // reflection by the network itself: the last node is told to dial an address that leads back to it (its datagrams
    // to Y come back from Z and vice versa); nothing it seals may ever be opened by itself
    let hairpin = w.ch.chance("hairpin_self_dial", 150);
    let hp_y = crate::net::mapped_addr(std::net::SocketAddr::new(std::net::IpAddr::V4(std::net::Ipv4Addr::new(198, 51, 100, 1)), 3210));
    let hp_z = crate::net::mapped_addr(std::net::SocketAddr::new(std::net::IpAddr::V4(std::net::Ipv4Addr::new(198, 51, 100, 2)), 3210));
    if hairpin {
        w.count("c02_hairpin_self_dials");
    }
    // Ethernet overlays: the receiver's dissector accepts any 14 bytes, so whatever comes out of the envelope is
    // written - on IP overlays a mangled payload would be dropped by the dissector instead
    let tap = w.ch.chance("tap_nodes", 300);
    if tap {
        w.count("c02_tap_meshes");
    }
    for i in 0..n {
        let mut c = if tap { mesh::tap_node(i) } else { mesh::tun_node(i) };
        c.key = k;
        c.algorithms = w.ch.pick("ciphers", &CIPHER_CFGS).iter().map(|s| s.to_string()).collect();
        c.tick_phase_ms = w.ch.choose("tick_phase", 1000) as u64;
        for j in 0..i {
            c.peers.push(mesh::node_text(j, fam));
        }
        if i == 0 {
            // an address that never answers: node 0 stays in "handshake pending" towards it
            c.peers.push(super::world::addr_text(x));
        }
        if hairpin && i == n - 1 {
            c.peers.push(super::world::addr_text(hp_y));
        }
        w.add_node(c, fam);
        if hairpin && i == n - 1 {
            w.aliases.insert(hp_y, i);
            w.aliases.insert(hp_z, i);
            w.alias_src.insert(hp_y, hp_z);
            w.alias_src.insert(hp_z, hp_y);
        }
    }
    let mut s = State { snaps: (0..n).map(|_| None).collect(), tampered: BTreeMap::new(), frames_sent: BTreeMap::new() };
    for i in 0..n {
        let st = w.start_node(i);
        after_step(w, &mut s, &st)?;
    }
    let pairs = mesh::all_pairs(n);
    // pairs without a common cipher never connect (C06); only connected pairs carry traffic here
    let mut connected = vec![];
    let mut err = None;
    let _ = mesh::run_until_connected(w, &pairs, 6_000, |w, st| after_step(w, &mut s, st)).unwrap_or_else(|e| {
        err = Some(e);
        false
    });
    if let Some(e) = err {
        return Err(e);
    }
    for (a, b) in &pairs {
        if w.is_connected(*a, *b) && w.is_connected(*b, *a) {
            connected.push((*a, *b));
        }
    }
    if connected.is_empty() {
        w.count("c02_nothing_connected");
        return Ok(());
    }
    let plain_pair = |w: &World, a: usize, b: usize| allows_plain(&w.nodes[a].cfg.algorithms) && allows_plain(&w.nodes[b].cfg.algorithms);
    if connected.iter().any(|(a, b)| plain_pair(w, *a, *b)) {
        w.count("c02_runs_with_plain_pair");
    }
    if connected.iter().any(|(a, b)| !plain_pair(w, *a, *b) && (allows_plain(&w.nodes[*a].cfg.algorithms) || allows_plain(&w.nodes[*b].cfg.algorithms))) {
        w.count("c02_runs_with_one_sided_plain");
    }
    let until = w.now_ms + 1200;
    let mut r = Ok(());
    while let Some(st) = w.step(until) {
        r = after_step(w, &mut s, &st);
        if r.is_err() {
            break;
        }
    }
    r?;
    states.push(mesh::abstract_state(w));
    let mut body_rng = Rng::new(w.ch.seed32("body_seed") as u64);
    let mut counter = 0u32;
    let ops = 10 + w.ch.choose("ops", 50);
    // send errors (EAGAIN, ENETUNREACH, EPERM, EINTR, short write) while frames are being sealed and sent: a frame may
    // be lost, but whatever is delivered is still exactly what was read
    if w.ch.chance("send_errors", 250) {
        w.net.enabled = true;
        w.net.send_fault_pm = *w.ch.pick("send_error_pm", &[100u32, 400]);
        w.count("c02_runs_with_send_errors");
    }
    for op in 0..ops {
        let (a, b) = *w.ch.pick("pair", &connected);
        // ---- a marked frame of a chosen length
        counter += 1;
        let m = mesh::marker(w, counter);
        let extra = if op == 0 {
            sweep_len
        } else {
            match w.ch.weighted("len_class", &[5, 3, 1]) {
                0 => w.ch.choose("len_small", 301) as usize,
                1 => 300 + w.ch.choose("len_mid", 1200) as usize,
                _ => 1500 + w.ch.choose("len_big", 7500) as usize,
            }
        };
        let mut body = m.to_vec();
        // readable filler: a cleartext leak would be visible in the scan as well
        body.extend((0..extra).map(|i| b"cleartext-payload-"[i % 18]));
        let f = if tap { mesh::eth_frame(mesh::mac(b), mesh::mac(a), &[], &body) } else { mesh::ipv4_packet(mesh::tun_ip(a), mesh::tun_ip(b), &body) };
        s.frames_sent.insert(counter, (a, b, f.clone()));
        let first_wire = w.wire.len();
        let at = w.now_ms + 1 + w.ch.choose("gap_ms", 40) as u64;
        w.schedule_frame(at, a, f);
        // run until the frame was read (its datagram is on the wire)
        let until = at + 1;
        let mut r = Ok(());
        while let Some(st) = w.step(until) {
            r = after_step(w, &mut s, &st);
            if r.is_err() {
                break;
            }
        }
        r?;
        // ---- with a path back to itself: a packet for the node's own address must not come back through the overlay
        if hairpin && w.ch.chance("packet_to_own_address", 300) {
            counter += 1;
            let mo = mesh::marker(w, counter);
            let f = if tap { mesh::eth_frame(mesh::mac(n - 1), mesh::mac(n - 1), &[], &mo) } else { mesh::ipv4_packet(mesh::tun_ip(n - 1), mesh::tun_ip(n - 1), &mo) };
            let at = w.now_ms + 1;
            w.schedule_frame(at, n - 1, f);
            w.count("c02_packets_to_own_address");
        }
        // ---- tamper with a sealed datagram that is on the wire now (the data datagram or any other recent one)
        let sealed: Vec<usize> = (first_wire.saturating_sub(6)..w.wire.len())
            .filter(|id| {
                let r = &w.wire[*id];
                matches!(r.origin, Origin::Genuine) && r.from_node.is_some() && !World::is_init_datagram(&r.data) && r.data.len() >= 24 && {
                    let (fa, fb) = (r.from_node.unwrap(), w.node_by_addr(r.dst).unwrap_or(99));
                    fb < n && !plain_pair(w, fa, fb)
                }
            })
            .collect();
        if !sealed.is_empty() && !w.ch.chance("no_tamper", 200) {
            let id = *w.ch.pick("tamper_which", &sealed);
            let d = w.wire[id].data.clone();
            let (osrc, odst, from) = (w.wire[id].src, w.wire[id].dst, w.wire[id].from_node.unwrap());
            let kind = w.ch.weighted("tamper", &[5, 3, 2, 2, 1]);
            let (data, src, dst, tag): (Vec<u8>, _, _, &'static str) = match kind {
                0 => {
                    // one bit: key id byte, counter, ciphertext or tag
                    let region = w.ch.weighted("flip_region", &[2, 3, 4, 3]);
                    let bit = match region {
                        0 => w.ch.choose("flip_keyid_bit", 8) as usize,
                        1 => 8 + w.ch.choose("flip_counter_bit", 56) as usize,
                        2 => 64 + w.ch.choose("flip_body_bit", ((d.len() - 24) * 8).max(1) as u32) as usize,
                        _ => (d.len() - 16) * 8 + w.ch.choose("flip_tag_bit", 128) as usize,
                    };
                    let mut v = (*d).clone();
                    let bit = bit.min(v.len() * 8 - 1);
                    v[bit / 8] ^= 1 << (bit % 8);
                    w.count(match region {
                        0 => "c02_flip_key_id",
                        1 => "c02_flip_counter",
                        2 => "c02_flip_ciphertext",
                        _ => "c02_flip_tag",
                    });
                    (v, osrc, odst, "bit-flipped")
                }
                1 => {
                    let len = w.ch.choose("truncate_at", d.len() as u32) as usize;
                    (d[..len].to_vec(), osrc, odst, "truncated")
                }
                2 => ((*d).clone(), odst, osrc, "reflected"),
                3 if n > 2 => {
                    // sealed for connection from->dst, presented on another connection with a matching source
                    let third = (0..n).find(|t| *t != from && w.nodes[*t].addr != odst).unwrap();
                    let taddr = w.nodes[third].addr;
                    if w.ch.chance("redirect_variant", 500) {
                        ((*d).clone(), osrc, taddr, "redirected")
                    } else {
                        ((*d).clone(), taddr, odst, "redirected")
                    }
                }
                _ => {
                    let mut v = (*d).clone();
                    v.extend(body_rng.bytes(1 + w.ch.choose("extend_by", 40) as usize));
                    (v, osrc, odst, "extended")
                }
            };
            let delay = w.ch.choose("tamper_delay_ms", 30) as u64;
            // the connection the datagram is presented on must be a sealed one as well: between two ends that both
            // enabled plain, anything from the peer's address is payload by definition
            let presented_on_plain = match (w.node_by_addr(src), w.node_by_addr(dst)) {
                (Some(x), Some(y)) if x < n && y < n => plain_pair(w, x, y),
                _ => false,
            };
            if !presented_on_plain {
                let wid = w.inject(src, dst, data, delay, tag);
                s.tampered.insert(wid, tag);
                w.count("c02_tampered_injected");
            }
        }
        // ---- a datagram sealed by an outsider under a key it can guess (all zero / all ones) for any slot
        if w.ch.chance("forged_with_guessable_key", 250) {
            counter += 1;
            let m3 = mesh::marker(w, counter);
            let (fa, fb) = *w.ch.pick("forge_pair", &connected);
            let inner = mesh::ipv4_packet(mesh::tun_ip(fa), mesh::tun_ip(fb), &m3);
            let cipher = w.ch.choose("forge_cipher", 3) as usize;
            let key_byte = *w.ch.pick("forge_key_byte", &[0u8, 0xff]);
            let key_id = w.ch.choose("forge_key_id", 4) as u8;
            let half = *w.ch.pick("forge_half", &[0u8, 0x80]);
            let ctr = *w.ch.pick("forge_counter", &[1u64, 0x00ff_ffff_ffff_ff00, 0x0000_8000_0000_0000]);
            let d = super::refmodel::forge_sealed(cipher, key_byte, key_id, half, ctr, 0, &inner);
            let (src, dst) = (w.nodes[fa].addr, w.nodes[fb].addr);
            if !plain_pair(w, fa, fb) {
                let wid = w.inject(src, dst, d, 1, "sealed-with-guessable-key");
                s.tampered.insert(wid, "sealed-with-guessable-key");
                w.count("c02_guessable_key_forgeries");
            }
        }
        // ---- unsealed payload presented while a handshake with that address is pending
        if w.ch.chance("unsealed_to_pending", 150) {
            counter += 1;
            let m2 = mesh::marker(w, counter);
            let inner = mesh::ipv4_packet(mesh::tun_ip(1), mesh::tun_ip(0), &m2);
            let mut v = vec![0u8]; // message type DATA, no envelope
            v.extend_from_slice(&inner);
            let has_pending = w.snapshot(0).map(|sn| sn.pending.iter().any(|(a, _)| *a == x)).unwrap_or(false);
            if has_pending {
                w.count("c02_unsealed_to_pending_handshake");
            }
            let a0 = w.nodes[0].addr;
            let wid = w.inject(x, a0, v, 1, "unsealed-payload");
            s.tampered.insert(wid, "unsealed-payload");
        }
        let until = w.now_ms + 80;
        let mut r = Ok(());
        while let Some(st) = w.step(until) {
            r = after_step(w, &mut s, &st);
            if r.is_err() {
                break;
            }
        }
        r?;
    }
    w.net.send_fault_pm = 0;
    // ---- a datagram sealed for the previous connection of the same two addresses: the sender crashes and comes back,
    // a new handshake replaces the connection, and a datagram of the old one that the network had held back arrives
    if w.ch.chance("previous_connection", 300) {
        let cands: Vec<(usize, usize)> = connected.iter().copied().filter(|(a, b)| a > b && !plain_pair(w, *a, *b) && !(hairpin && *a == n - 1)).collect();
        if !cands.is_empty() {
            let (a, b) = *w.ch.pick("previous_connection_pair", &cands);
            // a frame read at a while the path to b is cut: sealed, on the wire record, never delivered
            w.partition(a, b, false);
            counter += 1;
            let mh = mesh::marker(w, counter);
            let f = if tap { mesh::eth_frame(mesh::mac(b), mesh::mac(a), &[], &mh) } else { mesh::ipv4_packet(mesh::tun_ip(a), mesh::tun_ip(b), &mh) };
            let first_wire = w.wire.len();
            let at = w.now_ms + 1;
            w.schedule_frame(at, a, f);
            let until = at + 5;
            let mut r = Ok(());
            while let Some(st) = w.step(until) {
                r = after_step(w, &mut s, &st);
                if r.is_err() {
                    break;
                }
            }
            r?;
            let held: Option<usize> = (first_wire..w.wire.len()).find(|id| {
                let r = &w.wire[*id];
                r.from_node == Some(a) && w.node_by_addr(r.dst) == Some(b) && matches!(r.cause, Cause::Dev(_)) && !World::is_init_datagram(&r.data) && r.dropped.is_some()
            });
            w.heal_all();
            if let Some(id) = held {
                let d = w.wire[id].data.clone();
                let (osrc, odst) = (w.wire[id].src, w.wire[id].dst);
                w.crash_node(a);
                s.snaps[a] = None;
                let pause = w.ch.choose("previous_connection_down_ms", 2_000) as u64;
                let until = w.now_ms + pause;
                let mut r = Ok(());
                while let Some(st) = w.step(until) {
                    r = after_step(w, &mut s, &st);
                    if r.is_err() {
                        break;
                    }
                }
                r?;
                let st = w.start_node(a);
                after_step(w, &mut s, &st)?;
                let mut err = None;
                let deadline = w.now_ms + 10_000;
                let ok = mesh::run_until_connected(w, &[(a, b), (b, a)], deadline, |w, st| after_step(w, &mut s, st)).unwrap_or_else(|e| {
                    err = Some(e);
                    false
                });
                if let Some(e) = err {
                    return Err(e);
                }
                if ok {
                    let delay = 1 + w.ch.choose("held_back_delay_ms", 3_000) as u64;
                    let wid = w.inject(osrc, odst, (*d).clone(), delay, "sealed-for-previous-connection");
                    s.tampered.insert(wid, "sealed-for-previous-connection");
                    w.count("c02_previous_connection_datagrams");
                } else {
                    w.count("c02_previous_connection_not_reestablished");
                }
            }
        }
    }
    // ---- afterwards (two ticks later) untouched traffic still gets through, byte-identical, exactly once
    let until = w.now_ms + 5_000;
    let mut r = Ok(());
    while let Some(st) = w.step(until) {
        r = after_step(w, &mut s, &st);
        if r.is_err() {
            break;
        }
    }
    r?;
    let first_write = w.dev_writes.len();
    let mut finals = vec![];
    for (a, b) in &connected {
        if !(w.is_connected(*a, *b) && w.is_connected(*b, *a)) {
            continue;
        }
        counter += 1;
        let m = mesh::marker(w, counter);
        let f = if tap { mesh::eth_frame(mesh::mac(*b), mesh::mac(*a), &[], &m) } else { mesh::ipv4_packet(mesh::tun_ip(*a), mesh::tun_ip(*b), &m) };
        finals.push((*a, *b, f.clone()));
        let at = w.now_ms + 1 + finals.len() as u64;
        w.schedule_frame(at, *a, f);
    }
    let until = w.now_ms + 300;
    let mut r = Ok(());
    while let Some(st) = w.step(until) {
        r = after_step(w, &mut s, &st);
        if r.is_err() {
            break;
        }
    }
    r?;
    for (a, b, f) in &finals {
        let got = w.dev_writes[first_write..].iter().filter(|d| d.node == *b && d.data == *f).count();
        w.count("c02_final_probes_checked");
        if got != 1 {
            return Err(Violation::new("byte-identical", "untouched-frame-not-delivered-after-tampering", format!("after the tampering phase a frame from n{} to n{} was delivered {} times", a, b, got)));
        }
    }
    // ---- (a) confidentiality: scan the whole capture
    let node_ids: Vec<[u8; 16]> = w.nodes.iter().flat_map(|nd| nd.node_ids.clone()).collect();
    let markers: std::collections::BTreeSet<Vec<u8>> = w
        .frames
        .iter()
        .filter_map(|f| {
            let d = &f.data;
            (0..d.len().saturating_sub(15)).find(|i| d[*i] == b'V' && d[*i + 1] == b'M').map(|i| d[i..i + 16].to_vec())
        })
        .collect();
    for r in &w.wire {
        let (fa, fb) = match (r.from_node, w.node_by_addr(r.dst)) {
            (Some(a), Some(b)) => (a, b),
            _ => continue,
        };
        if !matches!(r.origin, Origin::Genuine) || fa == fb {
            continue;
        }
        if plain_pair(w, fa, fb) {
            continue;
        }
        let d = &r.data;
        if d.len() < 16 {
            continue;
        }
        for i in 0..=d.len() - 16 {
            let win = &d[i..i + 16];
            // a marker is 24 bytes, 18 of them random: the first 16 must match one that was really sent
            if win[0] == b'V' && win[1] == b'M' && markers.contains(win) {
                return Err(Violation::new("confidential", "payload-cleartext-on-wire", format!("a payload marker appears in clear in a datagram from n{} to n{} although not both ends enabled plain", fa, fb)));
            }
            if win == b"cleartext-payloa" {
                return Err(Violation::new("confidential", "payload-cleartext-on-wire", format!("payload bytes appear in clear in a datagram from n{} to n{}", fa, fb)));
            }
            if node_ids.iter().any(|id| id == win) {
                return Err(Violation::new("confidential", "node-id-cleartext-on-wire", format!("a node id appears in clear in a datagram from n{} to n{} although not both ends enabled plain", fa, fb)));
            }
        }
    }
    w.count("c02_wire_scanned");
    states.push(mesh::abstract_state(w));
    Ok(())
}

impl Scenario for C02 {
    fn id(&self) -> &'static str {
        "C02"
    }

    fn run(&self, seed: u64, ch: Chooser, ctx: &RunCtx) -> RunOut {
        let mut w = mesh::new_world(seed, ch, ctx);
        let mut states = vec![];
        let res = scenario(&mut w, ctx, &mut states);
        let nontrivial = w.counters.get("c02_tampered_delivered").copied().unwrap_or(0) > 0;
        finish(w, res, nontrivial, states)
    }

    fn budget(&self, tier: Tier) -> (u64, u64) {
        match tier {
            Tier::Quick => (301 * 60, 150),
            Tier::Thorough => (301 * 4000, 1500),
        }
    }

    fn rule(&self) -> &'static str {
        "2-3 real tun nodes, each with a cipher list from {default, aes128, aes256, chacha20, plain, plain+aes256, chacha20+aes128} (so plain on none / one / both ends occurs), plus a never-answering configured peer at node 0 (handshake pending); 10-60 marked frames per run between connected pairs, the first of length (i mod 301) - every length 0..=300 once per 301 runs - the others up to 9000 bytes; after each frame one sealed datagram on the wire (data or node info) is tampered with: one bit flipped in key id / counter / ciphertext / tag, truncated at any length, reflected to its sender from the peer's address, presented on another connection of a 3-node mesh with a matching source address, or extended; unsealed payload is presented from the address of a pending handshake; datagrams sealed by the outsider under guessable keys (all-zero, all-ones) for every cipher, key slot and nonce half are presented from a peer's address. Oracles: every interface write is byte-identical to the frame read at the sending peer and comes from an unmodified copy of its datagram; a tampered datagram causes no write, no state change, no reply; two ticks later untouched frames are delivered exactly once on every connection; the complete wire capture of non-plain pairs contains no 16-byte window of payload or of any node id. Non-trivial: at least one tampered datagram was handled."
    }

    fn expected_probes(&self) -> Vec<&'static str> {
        vec!["c02_flip_key_id", "c02_flip_counter", "c02_flip_ciphertext", "c02_flip_tag", "c02_runs_with_plain_pair", "c02_runs_with_one_sided_plain", "c02_unsealed_to_pending_handshake", "c02_guessable_key_forgeries", "c02_final_probes_checked", "c02_wire_scanned"]
    }
}
