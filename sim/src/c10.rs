//! C10 - see fwd.rs (forwarding family)
use super::{
    chooser::Chooser,
    fwd::{self, Focus},
    runner::{RunCtx, RunOut, Scenario, Tier},
};

pub struct C10;

impl Scenario for C10 {
    fn id(&self) -> &'static str {
        "C10"
    }

    fn run(&self, seed: u64, ch: Chooser, ctx: &RunCtx) -> RunOut {
        fwd::run(Focus::C10, seed, ch, ctx)
    }

    fn budget(&self, tier: Tier) -> (u64, u64) {
        match tier {
            Tier::Quick => (6000, 120),
            Tier::Thorough => (120_000, 1500),
        }
    }

    fn rule(&self) -> &'static str {
        "2-5 node meshes in every mode (normal/router/switch/hub) on tun and tap, 20-120 operations (thorough: up to 300) per run: marked frames/packets of 24..9000 bytes injected at any node (destination claimed / learned / unknown / broadcast / own address, truncated frames), time steps around the switch timeout, optional restarts/stops/crashes; per step: wire datagrams caused by an interface read = one per peer selected by the node's own lookup (probe) and none else, a received payload causes no datagram, device writes are byte-identical to a frame read at a peer and come from a peer; at the end each marked frame was written at most once per node, never at its origin, only at selected peers, and at every selected peer when membership was stable and the network loss-free. Non-trivial: conservation was evaluated at least once. Distinct = distinct event-sequence hashes."
    }

    fn expected_probes(&self) -> Vec<&'static str> {
        vec!["c10_conservation_checked", "c10_no_relay_checked", "c10_frames_accounted", "fwd_unparsable_frames", "fwd_shape_tap_hub", "fwd_shape_tap_switch", "fwd_shape_tun_router", "fwd_dropped_no_route"]
    }
}
