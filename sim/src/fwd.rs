//! Forwarding family (C10, C11, C12, C13): one mesh scenario, four oracle sets.
//! Every check reports only violations of its own property; the others are counted as foreign observations.
use std::collections::{BTreeMap, BTreeSet};
use std::net::SocketAddr;

use super::{
    chooser::Chooser,
    mesh::{self, finish, panic_violation},
    refmodel::range_matches,
    runner::{RunCtx, RunOut, Tier, Violation},
    world::{Cause, Step, StepKind, World},
};
use crate::{
    device::Type,
    types::{Address, Mode, Range},
    verif::{Event, NodeSnapshot},
};

#[derive(Clone, Copy, PartialEq, Debug)]
pub enum Focus {
    C10,
    C11,
    C12,
    C13,
}

impl Focus {
    pub fn name(self) -> &'static str {
        match self {
            Focus::C10 => "C10",
            Focus::C11 => "C11",
            Focus::C12 => "C12",
            Focus::C13 => "C13",
        }
    }
}

// ---------------------------------------------------------------- reference dissectors

/// Independent reference: (src, dst) as (len, bytes) or None when the dissector must reject
pub fn ref_parse_frame(d: &[u8]) -> Option<(Vec<u8>, Vec<u8>)> {
    if d.len() < 14 {
        return None;
    }
    let dst = &d[0..6];
    let src = &d[6..12];
    if d[12] == 0x81 && d[13] == 0x00 {
        if d.len() < 16 {
            return None;
        }
        let vlan = (((d[14] as u16) << 8) | d[15] as u16) & 0x0fff;
        if vlan == 0 {
            // priority tagged frames count as untagged
            return Some((src.to_vec(), dst.to_vec()));
        }
        let mut s = vlan.to_be_bytes().to_vec();
        s.extend_from_slice(src);
        let mut t = vlan.to_be_bytes().to_vec();
        t.extend_from_slice(dst);
        Some((s, t))
    } else {
        Some((src.to_vec(), dst.to_vec()))
    }
}

pub fn ref_parse_packet(d: &[u8]) -> Option<(Vec<u8>, Vec<u8>)> {
    if d.is_empty() {
        return None;
    }
    match d[0] >> 4 {
        4 if d.len() >= 20 => Some((d[12..16].to_vec(), d[16..20].to_vec())),
        6 if d.len() >= 40 => Some((d[8..24].to_vec(), d[24..40].to_vec())),
        _ => None,
    }
}

fn addr_bytes(a: &Address) -> Vec<u8> {
    a.data[..a.len as usize].to_vec()
}

/// peers with the longest matching prefix among the given claims
fn ref_lpm(claims: &[(Range, SocketAddr, i64)], dst: &[u8]) -> (Option<u8>, Vec<SocketAddr>) {
    let mut best: Option<u8> = None;
    let mut peers = vec![];
    for (r, p, _) in claims {
        if range_matches(&addr_bytes(&r.base), r.prefix_len, dst) {
            match best {
                Some(b) if r.prefix_len < b => {}
                Some(b) if r.prefix_len == b => peers.push(*p),
                _ => {
                    best = Some(r.prefix_len);
                    peers = vec![*p];
                }
            }
        }
    }
    (best, peers)
}

// ---------------------------------------------------------------- scenario state

pub const CLAIM_UNIVERSE: [&str; 10] =
    ["10.0.0.0/8", "10.1.0.0/16", "10.1.1.0/24", "10.1.1.128/25", "10.2.0.0/16", "10.1.1.130/32", "fd00:1::/32", "fd00:1:2::/48", "10.3.0.0/17", "0.0.0.0/0"];
pub const MAC_CLAIMS: [&str; 4] = ["02:00:00:00:00:00/40", "02:00:00:00:01:00/48", "02:00:00:00:00:00/47", "02:00:00:00:01:02/48"];

struct RefCacheEntry {
    peer: SocketAddr,
    expiry: i64,
}

struct Fw {
    focus: Focus,
    n: usize,
    tap: bool,
    mode: Mode,
    learning: bool,
    broadcast: bool,
    switch_timeout: i64,
    peer_timeout: i64,
    snaps: Vec<Option<NodeSnapshot>>,
    /// local time of the last housekeeping sweep seen per node
    last_hk: Vec<i64>,
    /// (node, peer addr) -> claims of the last announcement processed
    announced: BTreeMap<(usize, SocketAddr), (BTreeSet<(Vec<u8>, u8)>, i64)>,
    /// C11 reference cache: (node, dst bytes) -> entry
    ref_cache: BTreeMap<(usize, Vec<u8>), RefCacheEntry>,
    /// C13 reference learning table: (node, src bytes) -> (peer addr, learned at)
    learned: BTreeMap<(usize, Vec<u8>), (SocketAddr, i64)>,
    /// addresses learned behind a peer whose connection was replaced by a new handshake since: the old connection
    /// ended ("P disconnects"), the same address answers again - forgetting and keeping are both right
    maybe_learned: BTreeMap<(usize, Vec<u8>), (SocketAddr, i64)>,
    /// frames: marker -> (origin node, selected peer nodes (None = unknown), lossless)
    frames: BTreeMap<u32, FrameInfo>,
    counter: u32,
    foreign: u64,
    lossless: bool,
    /// when each node was last started (ms)
    started_ms: Vec<u64>,
    /// (node, peer address) -> when the node last added a peer under that address
    session_ms: BTreeMap<(usize, SocketAddr), u64>,
    /// every PeerAdded / PeerRemoved: (node, peer address, ms)
    session_events: Vec<(usize, SocketAddr, u64)>,
    /// crashes, stops and starts: (node, ms)
    disturbed: Vec<(usize, u64)>,
}

struct FrameInfo {
    origin: usize,
    data: Vec<u8>,
    selected: Option<Vec<usize>>,
    hk_ran: bool,
    read_ms: u64,
    /// selected nodes with which the origin had a settled connection when the frame was read: (node, address of the
    /// origin as that node sees it)
    must: Vec<(usize, SocketAddr)>,
}

/// the address under which node `s`, reached at `a`, sees node `i`
fn reverse_addr(w: &World, i: usize, a: SocketAddr) -> SocketAddr {
    if w.second_addr.values().any(|x| *x == a) {
        w.second_addr.get(&i).copied().unwrap_or(w.nodes[i].addr)
    } else {
        w.nodes[i].addr
    }
}

fn range_key(r: &Range) -> (Vec<u8>, u8) {
    (addr_bytes(&r.base), r.prefix_len)
}

impl Fw {
    fn viol(&mut self, w: &mut World, prop: Focus, oracle: &'static str, sig: &str, msg: String) -> Result<(), Violation> {
        if prop == self.focus {
            Err(Violation::new(oracle, sig.to_string(), format!("{}: {}", prop.name(), msg)))
        } else {
            self.foreign += 1;
            w.count("foreign_observations");
            if std::env::var("VERIF_SHOW_FOREIGN").is_ok() {
                eprintln!("FOREIGN[{} under {}] {} {}: {}", prop.name(), self.focus.name(), oracle, sig, msg);
            }
            Ok(())
        }
    }

    /// C10 ("to every peer selected for it and to no other node") presupposes that peers are selected by the frame's
    /// own destination and by the forwarding rules: under C10 a wrong selection is reported as well, in the shapes in
    /// which the respective reference is the deciding oracle of its own check
    fn or_c10(&self, p: Focus, validated_shape: bool) -> Focus {
        if self.focus == Focus::C10 && validated_shape {
            Focus::C10
        } else {
            p
        }
    }

    fn parse(&self, d: &[u8]) -> Option<(Vec<u8>, Vec<u8>)> {
        if self.tap {
            ref_parse_frame(d)
        } else {
            ref_parse_packet(d)
        }
    }

    /// bookkeeping + invariants after a step of node i
    fn after_step(&mut self, w: &mut World, st: &Step) -> Result<(), Violation> {
        if let Some(v) = panic_violation(w, st, self.focus.name()) {
            return Err(v);
        }
        let i = match st.node {
            Some(i) => i,
            None => return Ok(()),
        };
        let pre = self.snaps[i].take();
        let post = w.snapshot(i);
        let now = w.node_now_s(i);
        let hk_ran = match (&pre, &post) {
            (Some(a), Some(b)) => a.next_housekeep != b.next_housekeep,
            _ => false,
        };
        // an interface read is handled before the housekeeping of the same step (which may remove peers)
        if let StepKind::Frame { frame, .. } = st.kind {
            if let (Some(pre), Some(post)) = (&pre, &post) {
                self.check_frame_step(w, st, i, frame, pre, post, hk_ran, now)?;
            }
        }
        // announcements processed in this step
        for ev in &st.probes {
            match ev {
                Event::ClaimsSet { peer, claims } => {
                    let new: BTreeSet<(Vec<u8>, u8)> = claims.iter().map(range_key).collect();
                    // a withdrawn claim takes the decisions cached from this peer with it
                    let withdrawn = match self.announced.get(&(i, *peer)) {
                        Some((old, _)) => old.iter().any(|c| !new.contains(c)),
                        None => false,
                    };
                    if withdrawn {
                        self.ref_cache.retain(|k, e| !(k.0 == i && e.peer == *peer));
                        self.learned.retain(|k, e| !(k.0 == i && e.0 == *peer));
                        self.maybe_learned.retain(|k, e| !(k.0 == i && e.0 == *peer));
                        w.count("fwd_claim_withdrawals");
                    }
                    self.announced.insert((i, *peer), (new, now));
                    w.count("fwd_announcements_processed");
                }
                Event::PeerRemoved { addr, .. } => {
                    self.session_ms.remove(&(i, *addr));
                    self.session_events.push((i, *addr, w.now_ms));
                    self.announced.remove(&(i, *addr));
                    self.ref_cache.retain(|k, e| !(k.0 == i && e.peer == *addr));
                    self.learned.retain(|k, e| !(k.0 == i && e.0 == *addr));
                    self.maybe_learned.retain(|k, e| !(k.0 == i && e.0 == *addr));
                }
                Event::PeerAdded { addr } => {
                    // a new handshake supersedes the old peer entry; its announcement follows in the same step
                    self.session_ms.insert((i, *addr), w.now_ms);
                    self.session_events.push((i, *addr, w.now_ms));
                    let moved: Vec<(usize, Vec<u8>)> = self.learned.iter().filter(|(k, e)| k.0 == i && e.0 == *addr).map(|(k, _)| k.clone()).collect();
                    for k in moved {
                        if let Some(e) = self.learned.remove(&k) {
                            self.maybe_learned.insert(k, e);
                        }
                    }
                }
                _ => {}
            }
        }
        // no amplification: a node never opens a second connection to a node it is already peered with because a
        // third node announced it under another address (dials caused by a received message; reconnects to configured
        // addresses happen in housekeeping and go by address)
        if let (StepKind::Deliver { wire, .. }, Some(pre), Some(post), false) = (&st.kind, &pre, &post, hk_ran) {
            let from = w.wire[*wire].src;
            for (d, _) in &post.pending {
                if *d == from || pre.pending.iter().any(|(a, _)| a == d) || pre.peers.iter().any(|p| p.addr == *d) {
                    continue;
                }
                if let Some(m) = w.node_by_addr(*d) {
                    let mid = w.current_node_id(m);
                    // (a node that restarted has a new id; third nodes may still announce its old one)
                    if m != i && mid.is_some() && w.nodes[m].node_ids.len() == 1 {
                        if let Some(p) = pre.peers.iter().find(|p| Some(p.node_id) == mid && p.addr != *d) {
                            return self.viol(w, Focus::C10, "no-amplification", "second-connection-to-peered-node", format!("n{} dials {} (n{}) on an announcement from {} although it is peered with that node under {}: every flooded frame would reach n{} twice", i, d, m, from, p.addr, m));
                        }
                    }
                }
                w.count("fwd_dials_on_announcement");
            }
        }
        // the event of a step is handled before the housekeeping of the same step: the event oracles use
        // the sweep time known before this step, the table oracle the one after it
        match st.kind {
            StepKind::Deliver { wire, accepted: true, .. } => {
                self.check_deliver_step(w, st, i, wire, &pre, hk_ran, now)?;
            }
            _ => {}
        }
        if hk_ran {
            self.last_hk[i] = now;
        }
        if let Some(post) = &post {
            self.check_table(w, i, post, now)?;
        }
        self.snaps[i] = post;
        Ok(())
    }

    /// C12: table tracks peers and announcements
    fn check_table(&mut self, w: &mut World, i: usize, s: &NodeSnapshot, now: i64) -> Result<(), Violation> {
        let peers: BTreeSet<SocketAddr> = s.peers.iter().map(|p| p.addr).collect();
        w.count("c12_table_checked");
        for (r, p, _) in &s.table.claims {
            if !peers.contains(p) {
                return self.viol(w, Focus::C12, "routes-track-peers", "claim-points-at-non-peer", format!("n{} keeps claim {} for {} which is not a peer", i, r, p));
            }
        }
        for (a, p, _) in &s.table.cache {
            if !peers.contains(p) {
                // in a learning mesh the cached addresses are the learned ones, which C13 says go when the peer disconnects
                let prop = if self.focus == Focus::C13 && self.learning { Focus::C13 } else { Focus::C12 };
                return self.viol(w, prop, "routes-track-peers", "cached-address-points-at-non-peer", format!("n{} keeps cached address {} for {} which is not a peer", i, a, p));
            }
        }
        // claims per peer = last announcement
        for p in &s.peers {
            if let Some((ann, t_ann)) = self.announced.get(&(i, p.addr)) {
                let have: BTreeSet<(Vec<u8>, u8)> = s.table.claims.iter().filter(|c| c.1 == p.addr).map(|c| range_key(&c.0)).collect();
                // announced claims legitimately expire when they are not re-announced within the peer timeout
                let may_have_expired = now >= *t_ann + self.peer_timeout;
                let extra_any = have.iter().any(|c| !ann.contains(c));
                if &have != ann && (extra_any || !may_have_expired) {
                    let extra: Vec<String> = s.table.claims.iter().filter(|c| c.1 == p.addr && !ann.contains(&range_key(&c.0))).map(|c| format!("{}", c.0)).collect();
                    let sig = if !extra.is_empty() { "withdrawn-claim-still-routable" } else { "announced-claim-missing" };
                    return self.viol(
                        w,
                        Focus::C12,
                        "claims-equal-announcement",
                        sig,
                        format!("n{} attributes {:?} to peer {} but its last announcement was {:?} (extra: {:?})", i, have.iter().map(|k| format!("{:?}/{}", k.0, k.1)).collect::<Vec<_>>(), p.addr, ann.iter().map(|k| format!("{:?}/{}", k.0, k.1)).collect::<Vec<_>>(), extra),
                    );
                }
                w.count("c12_claims_compared");
            }
        }
        // expiry: nothing survives a sweep that ran after its timeout
        for (r, p, t) in &s.table.claims {
            if *t < self.last_hk[i] {
                return self.viol(w, Focus::C12, "claims-expire", "expired-claim-survived-sweep", format!("n{} keeps claim {} of {} with timeout {} after a sweep at {} (now {})", i, r, p, t, self.last_hk[i], now));
            }
        }
        for (a, p, t) in &s.table.cache {
            if *t < self.last_hk[i] {
                return self.viol(w, Focus::C11, "cache-lifetime", "expired-cache-entry-survived-sweep", format!("n{} keeps cached {} -> {} with timeout {} after a sweep at {}", i, a, p, t, self.last_hk[i]));
            }
            // a decision cached from a claim never outlives that claim (non-learning modes cache nothing else)
            if !self.learning {
                let covered = s.table.claims.iter().any(|c| c.1 == *p && c.2 >= *t && range_matches(&addr_bytes(&c.0.base), c.0.prefix_len, &addr_bytes(a)));
                if !covered {
                    return self.viol(w, Focus::C11, "cache-lifetime", "cached-decision-outlives-its-claim", format!("n{} caches {} -> {} until {} but no claim of that peer containing the address lives that long (claims: {:?})", i, a, p, t, s.table.claims.iter().filter(|c| c.1 == *p).map(|c| (format!("{}", c.0), c.2)).collect::<Vec<_>>()));
                }
            }
            if *t > now + self.switch_timeout {
                return self.viol(w, Focus::C11, "cache-lifetime", "cache-entry-outlives-switch-timeout", format!("n{} caches {} -> {} until {} which is more than the switch timeout {} from now ({})", i, a, p, t, self.switch_timeout, now));
            }
        }
        Ok(())
    }

    #[allow(clippy::too_many_arguments)]
    fn check_frame_step(&mut self, w: &mut World, st: &Step, i: usize, frame: usize, pre: &NodeSnapshot, post: &NodeSnapshot, hk_ran: bool, now: i64) -> Result<(), Violation> {
        let data = w.frames[frame].data.clone();
        let marker = mesh::find_marker(&data);
        let parsed = self.parse(&data);
        let data_sent: Vec<usize> = st.sent.iter().copied().filter(|id| !World::is_init_datagram(&w.wire[*id].data)).collect();
        let lookup = st.probes.iter().find_map(|e| if let Event::Lookup { dst, hop } = e { Some((addr_bytes(dst), *hop)) } else { None });
        let peers: Vec<SocketAddr> = pre.peers.iter().map(|p| p.addr).collect();
        w.count("fwd_frames_handled");
        let (src_b, dst_b) = match parsed {
            None => {
                // the dissector must reject: nothing is sent (apart from housekeeping traffic)
                if lookup.is_some() {
                    return self.viol(w, Focus::C10, "forwarding", "unparsable-frame-forwarded", format!("n{} looked up a destination for a frame the reference dissector rejects ({} bytes)", i, data.len()));
                }
                if !hk_ran && !data_sent.is_empty() {
                    return self.viol(w, Focus::C10, "forwarding", "unparsable-frame-forwarded", format!("n{} sent {} datagrams for an unparsable frame", i, data_sent.len()));
                }
                w.count("fwd_unparsable_frames");
                return Ok(());
            }
            Some(x) => x,
        };
        let _ = src_b;
        let (ldst, hop) = match lookup {
            Some(x) => x,
            None => {
                return self.viol(w, Focus::C10, "forwarding", "parsable-frame-not-looked-up", format!("n{} did not look up the destination of a parsable frame ({} bytes)", i, data.len()));
            }
        };
        if ldst != dst_b {
            // dissection differs from the reference: forwarding of well-formed traffic is affected (C13 for VLAN folding)
            let p = self.or_c10(if self.tap { Focus::C13 } else { Focus::C11 }, true);
            return self.viol(w, p, "dissection", if self.tap { "vlan-normalisation-differs" } else { "destination-differs" }, format!("n{} looked up {:?} for a frame whose destination is {:?}", i, ldst, dst_b));
        }
        // --- C11: the decision
        let live_claims: Vec<(Range, SocketAddr, i64)> = pre.table.claims.clone();
        let (best, lpm_peers) = ref_lpm(&live_claims, &dst_b);
        let key = (i, dst_b.clone());
        let cached_real = pre.table.cache.iter().find(|c| addr_bytes(&c.0) == dst_b).map(|c| (c.1, c.2));
        let mut admissible: Vec<Option<SocketAddr>> = vec![];
        let mut ref_live = false;
        if !self.learning {
            if let Some(e) = self.ref_cache.get(&key) {
                // reference entry: usable until its expiry; in the window (expiry, expiry + sweep period] both answers are accepted
                let peer_alive = peers.contains(&e.peer);
                if peer_alive && now <= e.expiry + 2 && e.expiry >= self.last_hk[i] {
                    admissible.push(Some(e.peer));
                    ref_live = now <= e.expiry;
                }
            }
            // a fresh decision from the live claims is always legitimate; so is "no route" once the remembered
            // decision is past its expiry and only waits for the next sweep
            if lpm_peers.is_empty() {
                if admissible.is_empty() || !ref_live {
                    admissible.push(None);
                }
            } else {
                for p in &lpm_peers {
                    admissible.push(Some(*p));
                }
            }
            // the same decision judged against what the peers announced (not against what the table holds): a claim is
            // live from its last announcement for one peer timeout; between its expiry and the next sweep both
            // answers are accepted
            let mut must: Vec<(Range, SocketAddr, i64)> = vec![];
            let mut limbo: Vec<(Range, SocketAddr, i64)> = vec![];
            for p in &pre.peers {
                if let Some((ann, t_ann)) = self.announced.get(&(i, p.addr)) {
                    let exp = *t_ann + self.peer_timeout;
                    for (b, pl) in ann {
                        let mut data = [0u8; 16];
                        data[..b.len()].copy_from_slice(b);
                        let r = Range { base: Address { data, len: b.len() as u8 }, prefix_len: *pl };
                        if exp >= now {
                            must.push((r, p.addr, exp));
                        } else if exp >= self.last_hk[i] {
                            limbo.push((r, p.addr, exp));
                        }
                    }
                }
            }
            let (must_best, _) = ref_lpm(&must, &dst_b);
            let mut adm_ann: Vec<Option<SocketAddr>> = admissible.iter().filter(|a| self.ref_cache.get(&key).map(|e| Some(e.peer) == **a).unwrap_or(false)).cloned().collect();
            for (r, p, _) in must.iter().chain(limbo.iter()) {
                if range_matches(&addr_bytes(&r.base), r.prefix_len, &dst_b) && must_best.map(|b| r.prefix_len >= b).unwrap_or(true) {
                    adm_ann.push(Some(*p));
                }
            }
            if must_best.is_none() {
                adm_ann.push(None);
            }
            if !adm_ann.contains(&hop) {
                let sig = if hop.is_none() { "announced-live-claim-not-used" } else { "claim-no-longer-announced-still-used" };
                let c11_shape = matches!(self.mode, Mode::Router) || (!self.tap && self.mode == Mode::Normal);
                return self.viol(
                    w,
                    self.or_c10(Focus::C11, c11_shape),
                    "next-hop",
                    sig,
                    format!("n{} sends {:?} to {:?}; by the announcements of its peers admissible: {:?} (live {:?}, expired but unswept {:?}; table cache entry {:?}; now {}, last sweep {})", i, dst_b, hop, adm_ann, must.iter().map(|c| (format!("{}", c.0), c.1, c.2)).collect::<Vec<_>>(), limbo.iter().map(|c| (format!("{}", c.0), c.1, c.2)).collect::<Vec<_>>(), cached_real, now, self.last_hk[i]),
                );
            }
            w.count("c11_lookups_checked");
            if best.is_some() {
                w.count("c11_lookups_with_match");
            }
            if cached_real.is_some() {
                w.count("c11_cache_hits");
            }
            if !admissible.contains(&hop) {
                let sig = if cached_real.is_some() && hop == cached_real.map(|c| c.0) { "stale-cached-decision-used" } else if hop.is_none() { "live-claim-not-used" } else { "not-most-specific-live-claim" };
                let c11_shape = matches!(self.mode, Mode::Router) || (!self.tap && self.mode == Mode::Normal);
                return self.viol(
                    w,
                    self.or_c10(Focus::C11, c11_shape),
                    "next-hop",
                    sig,
                    format!("n{} sends {:?} to {:?}; admissible: {:?} (longest match /{:?} by {:?}; cache entry {:?}; now {}, last sweep {})", i, dst_b, hop, admissible, best, lpm_peers, cached_real, now, self.last_hk[i]),
                );
            }
            // maintain the reference cache
            match hop {
                Some(h) if !ref_live => {
                    let claim_exp = live_claims.iter().filter(|c| c.1 == h && Some(c.0.prefix_len) == best && range_matches(&addr_bytes(&c.0.base), c.0.prefix_len, &dst_b)).map(|c| c.2).max().unwrap_or(now);
                    self.ref_cache.insert(key.clone(), RefCacheEntry { peer: h, expiry: (now + self.switch_timeout).min(claim_exp) });
                }
                None => {
                    self.ref_cache.remove(&key);
                }
                _ => {}
            }
        } else {
            // --- C13: learning switch
            w.count("c13_lookups_checked");
            let l = self.learned.get(&key).map(|(p, t)| (*p, *t));
            let mut adm: Vec<Option<SocketAddr>> = vec![];
            match l {
                Some((p, t)) if peers.contains(&p) => {
                    let exp = t + self.switch_timeout;
                    if now <= exp + 2 && exp >= self.last_hk[i] {
                        adm.push(Some(p));
                        w.count("c13_learned_entry_live");
                    }
                    if now > exp || adm.is_empty() {
                        adm.push(None);
                    }
                }
                _ => adm.push(None),
            }
            // a decision taken from a MAC claim is remembered like any other (C11): it may be reused until it expires,
            // its peer goes, its claim is withdrawn, or the address is learned from traffic
            if let Some(e) = self.ref_cache.get(&key) {
                if peers.contains(&e.peer) && now <= e.expiry + 2 && e.expiry >= self.last_hk[i] && !adm.contains(&Some(e.peer)) {
                    adm.push(Some(e.peer));
                }
            }
            if l.is_none() {
                if let Some((p, t)) = self.maybe_learned.get(&key).copied() {
                    if peers.contains(&p) && now <= t + self.switch_timeout + 2 {
                        adm.push(Some(p));
                    }
                }
            }
            // claims (MAC ranges) also route in switch mode; accept the longest match as an alternative
            if adm.contains(&None) {
                for p in &lpm_peers {
                    adm.push(Some(*p));
                }
                if !lpm_peers.is_empty() {
                    adm.retain(|a| a.is_some());
                }
            }
            if !adm.contains(&hop) {
                let sig = match (hop, l) {
                    (None, Some(_)) => "learned-address-flooded",
                    (Some(_), None) => "unknown-address-unicast",
                    (Some(_), Some(_)) => "wrong-or-expired-learned-hop",
                    _ => "lookup-differs-from-learning-model",
                };
                let p = self.or_c10(Focus::C13, self.tap);
                return self.viol(w, p, "learning", sig, format!("n{} forwards destination {:?} to {:?}; reference learning table says {:?} (entry {:?}, now {}, switch timeout {}, last sweep {})", i, dst_b, hop, adm, l, now, self.switch_timeout, self.last_hk[i]));
            }
            if let Some(h) = hop {
                let from_claim = lpm_peers.contains(&h) && !matches!(l, Some((p, _)) if p == h);
                let held = self.ref_cache.get(&key).map(|e| e.peer == h && now <= e.expiry).unwrap_or(false);
                if from_claim && !held {
                    let claim_exp = live_claims.iter().filter(|c| c.1 == h && Some(c.0.prefix_len) == best && range_matches(&addr_bytes(&c.0.base), c.0.prefix_len, &dst_b)).map(|c| c.2).max().unwrap_or(now);
                    self.ref_cache.insert(key.clone(), RefCacheEntry { peer: h, expiry: (now + self.switch_timeout).min(claim_exp) });
                }
            } else {
                self.ref_cache.remove(&key);
            }
        }
        // --- C10: conservation for this interface read
        let selected: Vec<SocketAddr> = match hop {
            Some(h) => vec![h],
            None => {
                if self.broadcast {
                    peers.clone()
                } else {
                    vec![]
                }
            }
        };
        if let Some(h) = hop {
            if !peers.contains(&h) {
                return self.viol(w, Focus::C12, "routes-track-peers", "non-peer-selected-as-next-hop", format!("n{} selected {} as next hop for {:?} but it is not a peer", i, h, dst_b));
            }
        }
        if hop.is_none() && !self.broadcast {
            w.count("fwd_dropped_no_route");
            if post.dropped_out_packets != pre.dropped_out_packets + 1 {
                return self.viol(w, Focus::C11, "drop-counted", "unroutable-packet-not-counted", format!("n{} dropped a packet without live claim but the dropped-payload counter went {} -> {}", i, pre.dropped_out_packets, post.dropped_out_packets));
            }
        }
        let mut sel_nodes: Vec<usize> = selected.iter().filter_map(|a| w.node_by_addr(*a)).collect();
        sel_nodes.sort();
        if !hk_ran && !w.uplink_is_down(i) {
            let mut sent_to: Vec<SocketAddr> = data_sent.iter().map(|id| w.wire[*id].dst).collect();
            sent_to.sort();
            let mut want = selected.clone();
            want.sort();
            w.count("c10_conservation_checked");
            if sent_to != want {
                return self.viol(w, Focus::C10, "conservation", "datagrams-differ-from-selected-peers", format!("n{} read one frame, selected {:?}, but sent datagrams to {:?}", i, want, sent_to));
            }
        }
        if st.writes > 0 {
            return self.viol(w, Focus::C10, "isolation", "interface-read-written-back", format!("n{} wrote {} frames to its own interface while handling an interface read", i, st.writes));
        }
        if let Some(m) = marker {
            let mut must = vec![];
            if self.lossless && !hk_ran {
                for a in &selected {
                    let sn = match w.node_by_addr(*a) {
                        Some(sn) if w.is_up(sn) => sn,
                        _ => continue,
                    };
                    let rev = reverse_addr(w, i, *a);
                    if let (Some(t1), Some(t2)) = (self.session_ms.get(&(i, *a)), self.session_ms.get(&(sn, rev))) {
                        let fresh = *t1 > self.started_ms[sn] && *t2 > self.started_ms[i] && *t1 >= self.started_ms[i] && *t2 >= self.started_ms[sn];
                        if fresh && t1.max(t2) + 2_000 <= w.now_ms {
                            must.push((sn, rev));
                        }
                    }
                }
            }
            self.frames.insert(m, FrameInfo { origin: i, data: (*data).clone(), selected: Some(sel_nodes), hk_ran, read_ms: w.now_ms, must });
        }
        Ok(())
    }

    #[allow(clippy::too_many_arguments)]
    fn check_deliver_step(&mut self, w: &mut World, st: &Step, j: usize, wire: usize, pre: &Option<NodeSnapshot>, hk_ran: bool, now: i64) -> Result<(), Violation> {
        let rec_cause = w.wire[wire].cause;
        let src = w.wire[wire].src;
        let from_node = w.wire[wire].from_node;
        let is_data = matches!(rec_cause, Cause::Dev(_)) && !World::is_init_datagram(&w.wire[wire].data);
        // device writes of this step
        for k in 0..st.writes {
            let dw = &w.dev_writes[st.first_write + k];
            let data = dw.data.clone();
            w.count("fwd_device_writes");
            // (a) only payload that a peer read from its interface is ever written
            let frame_id = match rec_cause {
                Cause::Dev(f) if from_node.is_some() => f,
                _ => {
                    return self.viol(w, Focus::C10, "isolation", "write-not-caused-by-interface-read", format!("n{} wrote {} bytes to its interface for a datagram that was not caused by an interface read at a peer (cause {:?})", j, data.len(), rec_cause));
                }
            };
            let sent = w.frames[frame_id].data.clone();
            if *sent != data {
                return self.viol(w, Focus::C10, "byte-identical", "delivered-bytes-differ", format!("n{} delivered {} bytes that differ from the {} bytes read at n{:?}", j, data.len(), sent.len(), from_node));
            }
            // (b) the sender must have been a peer
            let was_peer = pre.as_ref().map(|p| p.peers.iter().any(|q| q.addr == src)).unwrap_or(false);
            if !was_peer {
                return self.viol(w, Focus::C10, "isolation", "payload-from-non-peer-delivered", format!("n{} delivered payload from {} which is not a peer", j, src));
            }
            // C13 reference learning
            if self.learning {
                if let Some((s, _)) = self.parse(&data) {
                    self.maybe_learned.remove(&(j, s.clone()));
                    self.ref_cache.remove(&(j, s.clone()));
                    self.learned.insert((j, s), (src, now));
                    w.count("c13_addresses_learned");
                }
            }
        }
        if st.writes > 1 {
            return self.viol(w, Focus::C10, "exactly-once", "one-datagram-many-writes", format!("n{} wrote {} frames for one datagram", j, st.writes));
        }
        // learning must only happen in learning mode: hub and router never learn
        if !self.learning {
            if st.probes.iter().any(|e| matches!(e, Event::Learned { .. })) {
                return self.viol(w, Focus::C13, "learning", "non-learning-mode-learned", format!("n{} ({:?}) learned an address from traffic", j, self.mode));
            }
        }
        // (c) no relaying: handling a received payload emits nothing
        if is_data && !hk_ran {
            let relayed: Vec<usize> = st.sent.iter().copied().filter(|id| !World::is_init_datagram(&w.wire[*id].data)).collect();
            w.count("c10_no_relay_checked");
            if !relayed.is_empty() {
                return self.viol(w, Focus::C10, "no-relay", "received-payload-caused-datagrams", format!("n{} emitted {} datagrams while handling payload received from {}", j, relayed.len(), src));
            }
        }
        Ok(())
    }

    /// end of run: exactly-once delivery to the selected peers and to nobody else
    fn final_accounting(&mut self, w: &mut World) -> Result<(), Violation> {
        let mut writes: BTreeMap<u32, Vec<usize>> = BTreeMap::new();
        for dw in &w.dev_writes {
            if let Some(m) = mesh::find_marker(&dw.data) {
                writes.entry(m).or_default().push(dw.node);
            }
        }
        let frames = std::mem::take(&mut self.frames);
        for (m, info) in &frames {
            let mut got = writes.get(m).cloned().unwrap_or_default();
            got.sort();
            if got.contains(&info.origin) {
                return self.viol(w, Focus::C10, "exactly-once", "frame-delivered-at-origin", format!("frame {} read at n{} was written to n{}'s own interface", m, info.origin, info.origin));
            }
            let mut dedup = got.clone();
            dedup.dedup();
            // two connections between the same two nodes (a multi-homed node dialled under both addresses at the same
            // time) are two peers: each gets the frame once
            let twice_selected = |n: usize| info.selected.as_ref().map(|s| s.iter().filter(|x| **x == n).count()).unwrap_or(0);
            let by_two_connections = got.iter().all(|g| got.iter().filter(|x| *x == g).count() <= twice_selected(*g).max(1));
            if dedup.len() != got.len() && by_two_connections {
                w.count("fwd_frames_delivered_over_two_connections");
            } else if dedup.len() != got.len() {
                return self.viol(w, Focus::C10, "exactly-once", "frame-delivered-twice", format!("frame {} read at n{} was delivered {:?}", m, info.origin, got));
            }
            if let Some(sel) = &info.selected {
                let extra: Vec<usize> = got.iter().copied().filter(|g| !sel.contains(g)).collect();
                if !extra.is_empty() {
                    return self.viol(w, Focus::C10, "exactly-once", "frame-delivered-to-unselected-node", format!("frame {} read at n{} selected {:?} but was delivered at {:?}", m, info.origin, sel, got));
                }
                if self.lossless && !info.hk_ran {
                    // every selected peer that was up and connected gets it
                    let missing: Vec<usize> = sel.iter().copied().filter(|s| !got.contains(s)).collect();
                    if !missing.is_empty() {
                        w.count("fwd_frames_not_delivered_everywhere");
                        // a selected peer may have restarted / lost the sender as peer meanwhile: only flag when both
                        // ends were stable peers the whole run (tracked by the scenario via `stable`)
                        if w.counters.get("fwd_membership_changes").copied().unwrap_or(0) == 0 && w.counters.get("fwd_rotation_or_replay_loss").copied().unwrap_or(0) == 0 {
                            return self.viol(w, Focus::C10, "exactly-once", "frame-not-delivered-to-selected-peer", format!("frame {} read at n{} selected {:?} but was delivered only at {:?} on a loss-free network with stable membership", m, info.origin, sel, got));
                        }
                    }
                }
            }
            // a peer with a settled connection (both ends added each other after their last start, two seconds or more
            // before the frame was read) that stayed up and kept the connection gets the frame on a loss-free network
            let end_ms = w.now_ms;
            if self.lossless && info.read_ms + 1_000 <= end_ms {
                for (sn, rev) in &info.must {
                    let lo = info.read_ms;
                    let hi = info.read_ms + 1_000;
                    let disturbed = self.disturbed.iter().any(|(n, t)| n == sn && *t >= lo && *t <= hi) || self.session_events.iter().any(|(n, a, t)| n == sn && a == rev && *t >= lo && *t <= hi);
                    if disturbed {
                        continue;
                    }
                    w.count("c10_settled_deliveries_checked");
                    if !got.contains(sn) {
                        return self.viol(w, Focus::C10, "exactly-once", "frame-not-delivered-over-settled-connection", format!("frame {} read at n{} at t={:.3}s was sent to n{} - both had added each other as peers since their last start, more than 2 s before, and n{} stayed up and kept the peer - but it was never written to n{}'s interface", m, info.origin, info.read_ms as f64 / 1000.0, sn, sn, sn));
                    }
                }
            }
            w.count("c10_frames_accounted");
        }
        Ok(())
    }
}

// ---------------------------------------------------------------- workload

fn gen_tun_packet(w: &mut World, fw: &mut Fw, from: usize) -> Vec<u8> {
    fw.counter += 1;
    let m = mesh::marker(w, fw.counter);
    let extra = match w.ch.weighted("payload_len", &[6, 3, 1]) {
        0 => 0,
        1 => w.ch.choose("payload_extra", 300) as usize,
        _ => 300 + w.ch.choose("payload_extra_big", 8700) as usize,
    };
    let mut body = m.to_vec();
    body.extend(std::iter::repeat(0x5a).take(extra));
    let v6 = w.ch.chance("ipv6", 150);
    if v6 {
        let mut dst = [0u8; 16];
        dst[0] = 0xfd;
        dst[1] = 0x00;
        dst[2] = 0x00;
        dst[3] = w.ch.choose("v6_b3", 3) as u8; // fd00:00xx
        dst[4] = 0;
        dst[5] = w.ch.choose("v6_b5", 4) as u8;
        dst[15] = 1 + w.ch.choose("v6_host", 3) as u8;
        let mut src = [0u8; 16];
        src[0] = 0xfd;
        src[15] = 1 + from as u8;
        mesh::ipv6_packet(src, dst, &body)
    } else {
        // destinations inside, between and outside the nested claims
        let dst = match w.ch.weighted("dst_class", &[5, 2, 2, 1]) {
            0 => {
                let grid: [[u8; 4]; 12] = [[10, 1, 1, 130], [10, 1, 1, 129], [10, 1, 1, 127], [10, 1, 1, 1], [10, 1, 2, 1], [10, 2, 0, 1], [10, 3, 0, 1], [10, 3, 128, 1], [10, 200, 0, 1], [10, 1, 1, 128], [10, 1, 0, 255], [10, 0, 255, 255]];
                *w.ch.pick("dst_grid", &grid)
            }
            1 => [10, w.ch.choose("dst_b1", 4) as u8, w.ch.choose("dst_b2", 3) as u8, w.ch.choose("dst_b3", 256) as u8],
            2 => [11, 0, 0, 1 + w.ch.choose("dst_out", 3) as u8],
            _ => [w.ch.choose("dst_any0", 256) as u8, w.ch.choose("dst_any1", 256) as u8, 0, 1],
        };
        mesh::ipv4_packet(mesh::tun_ip(from), dst, &body)
    }
}

pub const TAGS: [Option<u16>; 5] = [None, Some(0), Some(1), Some(0x67), Some(0xfff)];

fn gen_tap_frame(w: &mut World, fw: &mut Fw, from: usize) -> Vec<u8> {
    fw.counter += 1;
    let m = mesh::marker(w, fw.counter);
    let macs = 3 + fw.n; // universe: a few hosts behind every node
    let src_host = w.ch.choose("src_mac", macs as u32) as usize;
    let dst_kind = w.ch.weighted("dst_kind", &[5, 1, 1]);
    let dst = match dst_kind {
        0 => mesh::mac(w.ch.choose("dst_mac", macs as u32) as usize),
        1 => [0xff; 6],
        _ => mesh::mac(src_host),
    };
    let mut src = mesh::mac(src_host);
    // hosts are attached to the injecting node; sometimes a station has moved and shows up behind another node
    src[4] = if w.ch.chance("station_moved", 150) { w.ch.choose("moved_from", fw.n as u32) as u8 } else { from as u8 };
    let mut dstm = dst;
    if dst_kind == 0 {
        dstm[4] = w.ch.choose("dst_behind", fw.n as u32) as u8;
    }
    let tag = *w.ch.pick("vlan", &TAGS);
    let mut tags: Vec<u16> = vec![];
    if let Some(t) = tag {
        let pcp = w.ch.choose("pcp_dei", 16) as u16;
        tags.push(t | (pcp << 12));
        if w.ch.chance("nested_tag", 100) {
            tags.push(0x123);
        }
    }
    let extra = if w.ch.chance("long_frame", 100) { w.ch.choose("frame_extra", 1400) as usize } else { 0 };
    let mut body = m.to_vec();
    body.extend(std::iter::repeat(0xa5).take(extra));
    if w.ch.chance("runt_frame", 30) {
        // truncated frame: the dissector must reject it
        let f = mesh::eth_frame(dstm, src, &tags, &body);
        let len = w.ch.choose("runt_len", 16) as usize;
        return f[..len.min(f.len())].to_vec();
    }
    mesh::eth_frame(dstm, src, &tags, &body)
}

fn claims_for(w: &mut World, tap: bool, focus: Focus, i: usize) -> Vec<String> {
    if tap {
        if w.ch.chance("mac_claims", 300) {
            let k = 1 + w.ch.choose("mac_claim_count", 2) as usize;
            (0..k).map(|_| w.ch.pick("mac_claim", &MAC_CLAIMS).to_string()).collect()
        } else {
            vec![]
        }
    } else {
        let k = match focus {
            Focus::C12 => w.ch.choose("claim_count", 5) as usize,
            _ => 1 + w.ch.choose("claim_count", 3) as usize,
        };
        let mut v: Vec<String> = (0..k).map(|_| w.ch.pick("claim", &CLAIM_UNIVERSE).to_string()).collect();
        if v.is_empty() && i == 0 {
            v.push(CLAIM_UNIVERSE[1].to_string());
        }
        v
    }
}

pub fn scenario(w: &mut World, ctx: &RunCtx, focus: Focus, states: &mut Vec<u64>) -> Result<(), Violation> {
    let k = w.add_key(None);
    let n = 2 + w.ch.weighted("nodes", &[2, 3, 2, 1]);
    let fam = w.ch.choose("addr_family", 2) as u8;
    // mode x device
    let (tap, mode) = match focus {
        Focus::C13 => (true, *w.ch.pick("mode", &[Mode::Switch, Mode::Normal, Mode::Hub, Mode::Router])),
        Focus::C12 if w.ch.chance("tap_switch", 300) => (true, Mode::Switch),
        Focus::C11 | Focus::C12 => {
            if w.ch.chance("tap_router", 200) {
                (true, Mode::Router)
            } else {
                (false, *w.ch.pick("mode", &[Mode::Router, Mode::Normal]))
            }
        }
        Focus::C10 => {
            let tap = w.ch.chance("tap", 500);
            (tap, *w.ch.pick("mode", &[Mode::Normal, Mode::Router, Mode::Switch, Mode::Hub]))
        }
    };
    let (learning, broadcast) = match mode {
        Mode::Normal => {
            if tap {
                (true, true)
            } else {
                (false, false)
            }
        }
        Mode::Router => (false, false),
        Mode::Switch => (true, true),
        Mode::Hub => (false, true),
    };
    let switch_timeout = *w.ch.pick("switch_timeout", &[300u32, 5, 30, 2]);
    let peer_timeout = *w.ch.pick("peer_timeout", &[300u32, 120, 150]);
    let plain = w.ch.chance("plain", 100);
    // multi-homed nodes: every node has an address in a second network, and some configured peers are dialled there
    let multi = n >= 3 && w.ch.chance("multi_homed", 250);
    let second = |i: usize| -> SocketAddr {
        match fam {
            0 => SocketAddr::new(std::net::IpAddr::V6(std::net::Ipv6Addr::new(0xfd00, 2, 0, 0, 0, 0, 0, 1 + i as u16)), 3210),
            _ => SocketAddr::new(std::net::IpAddr::V4(std::net::Ipv4Addr::new(10, 0, 2, 1 + i as u8)), 3210),
        }
    };
    if multi {
        w.count("fwd_multi_homed_meshes");
    }
    // a node told to dial an address that leads back to itself (port forward / hair-pin; its datagrams to Y come back
    // from Z and vice versa): it must not become its own peer, or everything it floods or claims loops back
    let hairpin = !multi && w.ch.chance("hairpin_self_dial", 150);
    if hairpin {
        w.count("fwd_hairpin_self_dials");
    }
    for i in 0..n {
        let mut c = if tap { mesh::tap_node(i) } else { mesh::tun_node(i) };
        c.key = k;
        c.mode = mode;
        c.switch_timeout = switch_timeout;
        c.peer_timeout = peer_timeout;
        c.claims = claims_for(w, tap, focus, i);
        c.tick_phase_ms = w.ch.choose("tick_phase", 1000) as u64;
        if plain {
            c.algorithms = vec!["plain".into()];
        }
        for j in 0..i {
            if multi && w.ch.chance("dial_second_network", 400) {
                c.peers.push(super::world::addr_text(second(j)));
            } else {
                c.peers.push(mesh::node_text(j, fam));
            }
        }
        if hairpin && i == n - 1 {
            let y = crate::net::mapped_addr(SocketAddr::new(std::net::IpAddr::V4(std::net::Ipv4Addr::new(198, 51, 100, 1)), 3210));
            c.peers.push(super::world::addr_text(y));
        }
        w.add_node(c, fam);
        if multi {
            w.set_second_addr(i, second(i));
        }
        if hairpin && i == n - 1 {
            let y = crate::net::mapped_addr(SocketAddr::new(std::net::IpAddr::V4(std::net::Ipv4Addr::new(198, 51, 100, 1)), 3210));
            let z = crate::net::mapped_addr(SocketAddr::new(std::net::IpAddr::V4(std::net::Ipv4Addr::new(198, 51, 100, 2)), 3210));
            w.aliases.insert(y, i);
            w.aliases.insert(z, i);
            w.alias_src.insert(y, z);
            w.alias_src.insert(z, y);
        }
    }
    w.count(match (tap, mode) {
        (false, Mode::Router) => "fwd_shape_tun_router",
        (false, _) => "fwd_shape_tun_normal",
        (true, Mode::Router) => "fwd_shape_tap_router",
        (true, Mode::Hub) => "fwd_shape_tap_hub",
        (true, _) => "fwd_shape_tap_switch",
    });
    let mut fw = Fw {
        focus,
        n,
        tap,
        mode,
        learning,
        broadcast,
        switch_timeout: switch_timeout as i64,
        peer_timeout: peer_timeout as i64,
        snaps: (0..n).map(|_| None).collect(),
        last_hk: vec![i64::MIN / 2; n],
        announced: BTreeMap::new(),
        ref_cache: BTreeMap::new(),
        learned: BTreeMap::new(),
        maybe_learned: BTreeMap::new(),
        frames: BTreeMap::new(),
        counter: 0,
        foreign: 0,
        lossless: true,
        started_ms: vec![0; n],
        session_ms: BTreeMap::new(),
        session_events: vec![],
        disturbed: vec![],
    };
    for i in 0..n {
        let st = w.start_node(i);
        fw.after_step(w, &st)?;
    }
    let pairs = mesh::all_pairs(n);
    let mut err = None;
    let ok = mesh::run_until_connected(w, &pairs, 15_000, |w, st| fw.after_step(w, st)).unwrap_or_else(|e| {
        err = Some(e);
        false
    });
    if let Some(e) = err {
        return Err(e);
    }
    if !ok {
        w.count("fwd_mesh_not_formed");
        return Ok(());
    }
    // let the first announcements settle
    let until = w.now_ms + 1_500;
    let mut r = Ok(());
    while let Some(st) = w.step(until) {
        r = fw.after_step(w, &st);
        if r.is_err() {
            break;
        }
    }
    r?;
    states.push(mesh::abstract_state(w));
    let ops = match ctx.tier {
        Tier::Quick => 20 + w.ch.choose("ops", 100),
        Tier::Thorough => 20 + w.ch.choose("ops", 280),
    };
    let membership_ops = matches!(focus, Focus::C12) || w.ch.chance("membership_ops", 300);
    if membership_ops {
        // a restarted node and a peer whose handshake still lingers bounce repeated handshake messages at
        // round-trip speed for up to two minutes: a longer round trip keeps such runs affordable
        w.net.base_ms = 80;
    }
    let lossy = matches!(focus, Focus::C11 | Focus::C12) && w.ch.chance("lossy", 300);
    if lossy {
        w.net.loss_pm = *w.ch.pick("loss_pm", &[50, 300]);
        fw.lossless = false;
    }
    for _ in 0..ops {
        let op = w.ch.weighted("op", &[12, 4, if membership_ops { 2 } else { 0 }]);
        match op {
            0 => {
                let from = w.ch.choose("from", n as u32) as usize;
                if !w.is_up(from) {
                    continue;
                }
                let f = if tap { gen_tap_frame(w, &mut fw, from) } else { gen_tun_packet(w, &mut fw, from) };
                let at = w.now_ms + w.ch.choose("frame_gap_ms", 50) as u64;
                w.schedule_frame(at, from, f);
                let until = at + 60;
                let mut r = Ok(());
                while let Some(st) = w.step(until) {
                    r = fw.after_step(w, &st);
                    if r.is_err() {
                        break;
                    }
                }
                r?;
            }
            1 => {
                // time step around the switch timeout
                let st_ms = switch_timeout as u64 * 1000;
                let d = match w.ch.weighted("time_step", &[3, 3, 2, 2, 2, 1]) {
                    0 => 0,
                    1 => 1000,
                    2 => st_ms.saturating_sub(1000),
                    3 => st_ms,
                    4 => st_ms + 1000,
                    _ => 2000 + w.ch.choose("time_ms", 20_000) as u64,
                };
                let until = w.now_ms + d + w.ch.choose("time_phase_ms", 1000) as u64;
                w.count("fwd_time_steps");
                let mut r = Ok(());
                while let Some(st) = w.step(until) {
                    r = fw.after_step(w, &st);
                    if r.is_err() {
                        break;
                    }
                }
                r?;
            }
            _ => {
                w.count("fwd_membership_changes");
                let who = w.ch.choose("who", n as u32) as usize;
                match w.ch.weighted("membership_op", &[3, 2, 2, 1, 1]) {
                    4 => {
                        // the uplink of a node goes down for longer than its peer timeout: nothing arrives, every send
                        // fails (ENETUNREACH) - also the re-dial of each peer it times out meanwhile
                        if w.is_up(who) && !w.uplink_is_down(who) {
                            for other in 0..n {
                                if other != who {
                                    w.partition(who, other, true);
                                }
                            }
                            w.set_uplink_down(who, true);
                            fw.lossless = false;
                            fw.disturbed.push((who, w.now_ms));
                            let until = w.now_ms + (peer_timeout as u64 + 5 + w.ch.choose("uplink_down_extra_s", 30) as u64) * 1000;
                            let mut r = Ok(());
                            while let Some(st) = w.step(until) {
                                r = fw.after_step(w, &st);
                                if r.is_err() {
                                    break;
                                }
                            }
                            r?;
                            w.set_uplink_down(who, false);
                            w.heal_all();
                            w.count("fwd_uplink_outages");
                        }
                    }
                    0 => {
                        // restart on the same address with a different claim set
                        if w.is_up(who) {
                            fw.disturbed.push((who, w.now_ms));
                            if w.ch.chance("graceful", 500) {
                                if let Some(st) = w.stop_node(who) {
                                    fw.after_step(w, &st)?;
                                }
                            } else {
                                w.crash_node(who);
                            }
                        }
                        let pause = w.ch.choose("down_ms", 3_000) as u64;
                        let until = w.now_ms + pause;
                        let mut r = Ok(());
                        while let Some(st) = w.step(until) {
                            r = fw.after_step(w, &st);
                            if r.is_err() {
                                break;
                            }
                        }
                        r?;
                        let newc = claims_for(w, tap, Focus::C12, who);
                        w.note(|| format!("n{} restarts with claims {:?}", who, newc));
                        w.nodes[who].cfg.claims = newc;
                        fw.snaps[who] = None;
                        fw.last_hk[who] = i64::MIN / 2;
                        let keys: Vec<_> = fw.announced.keys().filter(|k| k.0 == who).cloned().collect();
                        for k in keys {
                            fw.announced.remove(&k);
                        }
                        fw.ref_cache.retain(|k, _| k.0 != who);
                        fw.learned.retain(|k, _| k.0 != who);
                        fw.maybe_learned.retain(|k, _| k.0 != who);
                        fw.disturbed.push((who, w.now_ms));
                        fw.started_ms[who] = w.now_ms;
                        fw.session_ms.retain(|k, _| k.0 != who);
                        let st = w.start_node(who);
                        fw.after_step(w, &st)?;
                        w.count("fwd_restarts");
                    }
                    1 => {
                        // graceful stop (CLOSE), stays down for a while
                        fw.disturbed.push((who, w.now_ms));
                        if let Some(st) = w.stop_node(who) {
                            fw.after_step(w, &st)?;
                            w.count("fwd_graceful_stops");
                        }
                    }
                    2 => {
                        // goes silent: crash without CLOSE
                        if w.is_up(who) {
                            fw.disturbed.push((who, w.now_ms));
                            w.crash_node(who);
                            w.count("fwd_crashes");
                        }
                    }
                    _ => {
                        // temporary one-way partition (announcements lost -> claims expire)
                        let other = (who + 1 + w.ch.choose("part_other", n as u32 - 1) as usize) % n;
                        w.partition(who, other, false);
                        fw.lossless = false;
                    }
                }
                let until = w.now_ms + 200;
                let mut r = Ok(());
                while let Some(st) = w.step(until) {
                    r = fw.after_step(w, &st);
                    if r.is_err() {
                        break;
                    }
                }
                r?;
            }
        }
    }
    // drain
    w.heal_all();
    let until = w.now_ms + 1_100;
    let mut r = Ok(());
    while let Some(st) = w.step(until) {
        r = fw.after_step(w, &st);
        if r.is_err() {
            break;
        }
    }
    r?;
    states.push(mesh::abstract_state(w));
    fw.final_accounting(w)?;
    let _ = (fw.peer_timeout, fw.mode);
    Ok(())
}

pub fn run(focus: Focus, seed: u64, ch: Chooser, ctx: &RunCtx) -> RunOut {
    let mut w = mesh::new_world(seed, ch, ctx);
    let mut states = vec![];
    let res = scenario(&mut w, ctx, focus, &mut states);
    let key = match focus {
        Focus::C10 => "c10_conservation_checked",
        Focus::C11 => "c11_lookups_checked",
        Focus::C12 => "c12_claims_compared",
        Focus::C13 => "c13_lookups_checked",
    };
    let nontrivial = w.counters.get(key).copied().unwrap_or(0) > 0;
    finish(w, res, nontrivial, states)
}
