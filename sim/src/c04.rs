//! C04 - see l1.rs (pair level scenarios)
use super::{
    chooser::Chooser,
    l1,
    runner::{RunCtx, RunOut, Scenario, Tier},
};

pub struct C04;

impl Scenario for C04 {
    fn id(&self) -> &'static str {
        "C04"
    }

    fn run(&self, seed: u64, ch: Chooser, ctx: &RunCtx) -> RunOut {
        // one run in three walks the two-party handshake schedules of C05 (sweep first) under the seal-log oracles
        if ctx.index % 3 == 2 {
            return l1::c05_for(seed, ch, ctx, ctx.index / 3, true);
        }
        l1::c04(seed, ch, ctx)
    }

    fn budget(&self, tier: Tier) -> (u64, u64) {
        match tier {
            Tier::Quick => (3 * 4096 + 3000, 120),
            Tier::Thorough => (3 * 262_144 + 60_000, 1500),
        }
    }

    fn rule(&self) -> &'static str {
        "two thirds of the runs: whole connection lifetimes of a real PeerCrypto pair: handshake by one side or both at once with reordered/duplicated handshake datagrams, then 300-1500 ticks per end (thorough: up to 4000; a rotation cycle is 120 ticks) with rotation messages lost, duplicated, reordered and delayed, a probe sealed in both directions after every step; nonce starts shaped to sit 0-299 seals below a carry boundary of 1-6 low bytes in 60 % of the runs; in half of the runs the counter is afterwards placed 1-40 seals below the 56 bit limit. Oracle over the seal log (every encrypt call of both ends): no (key fingerprint, nonce) twice, strictly increasing per (end, key), the two ends of one key use different top bytes, every key's first nonce is exactly what the generator handed out, past the 56 bit limit the peer opens nothing and below it everything. One third of the runs: the two-party handshake schedules of C05 (sweep of all schedules of length 4 / 6 over {A initiates, B initiates, deliver oldest/newest, duplicate, drop, tick A, tick B}, then random schedules with forced re-dials) under the same seal-log oracles plus: the two ends of one key install it with opposite nonce halves. Non-trivial: more than 10 seals were logged or a handshake completed."
    }

    fn expected_probes(&self) -> Vec<&'static str> {
        vec!["c04_both_ends_sealed_under_one_key", "c04_low_byte_carry", "c04_two_byte_carry", "c04_seals_past_56_bit_limit", "c04_nonce_start_near_carry", "l1_dual_open", "c07_sealing_key_changes"]
    }
}
