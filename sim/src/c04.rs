//! C04 - pair level scenarios in l1.rs; node level (seal log of whole nodes under send errors) here
use std::collections::{BTreeMap, BTreeSet};

use super::{
    chooser::Chooser,
    l1,
    mesh::{self, finish, panic_violation},
    runner::{RunCtx, RunOut, Scenario, Tier, Violation},
    world::{Step, World},
};
use crate::verif::Event;

struct SealLog {
    seen: BTreeSet<(usize, u64, [u8; 12])>,
    last: BTreeMap<(usize, u64), [u8; 12]>,
}

fn after(w: &mut World, log: &mut SealLog, st: &Step) -> Result<(), Violation> {
    if let Some(v) = panic_violation(w, st, "C04") {
        return Err(v);
    }
    let i = match st.node {
        Some(i) => i,
        None => return Ok(()),
    };
    for e in &st.probes {
        if let Event::Seal { key_fp, nonce, .. } = e {
            w.count("c04_node_level_seals_logged");
            if !log.seen.insert((i, *key_fp, *nonce)) {
                return Err(Violation::new("nonce-unique", "key-nonce-pair-reused", format!("n{} sealed a second datagram under key {:016x} with nonce {:02x?}", i, key_fp, nonce)));
            }
            if let Some(prev) = log.last.get(&(i, *key_fp)) {
                if nonce <= prev {
                    return Err(Violation::new("nonce-unique", "counter-not-increasing", format!("n{} key {:016x}: nonce {:02x?} after {:02x?}", i, key_fp, nonce, prev)));
                }
            }
            log.last.insert((i, *key_fp), *nonce);
        }
    }
    Ok(())
}

fn drive(w: &mut World, log: &mut SealLog, until: u64) -> Result<(), Violation> {
    while let Some(st) = w.step(until) {
        after(w, log, &st)?;
    }
    Ok(())
}

/// Node level: every seal of 2-3 whole nodes (payload, announcements, keepalives, rotation) while the socket refuses
/// datagrams now and then (EAGAIN, ENETUNREACH, EPERM, EINTR, short write): a refused datagram was sealed all the
/// same, its nonce is spent.
fn node_scenario(w: &mut World, _ctx: &RunCtx, states: &mut Vec<u64>) -> Result<(), Violation> {
    let k = w.add_key(None);
    let n = 2 + w.ch.choose("third_node", 2) as usize;
    let fam = w.ch.choose("addr_family", 2) as u8;
    let cipher = w.ch.pick("cipher", &["aes128", "aes256", "chacha20"]).to_string();
    for i in 0..n {
        let mut c = mesh::tun_node(i);
        c.key = k;
        c.algorithms = vec![cipher.clone()];
        c.tick_phase_ms = w.ch.choose("tick_phase", 1000) as u64;
        for j in 0..i {
            c.peers.push(mesh::node_text(j, fam));
        }
        w.add_node(c, fam);
    }
    let mut log = SealLog { seen: BTreeSet::new(), last: BTreeMap::new() };
    for i in 0..n {
        let st = w.start_node(i);
        after(w, &mut log, &st)?;
    }
    let pairs = mesh::all_pairs(n);
    let mut err = None;
    let ok = mesh::run_until_connected(w, &pairs, 8_000, |w, st| after(w, &mut log, st)).unwrap_or_else(|e| {
        err = Some(e);
        false
    });
    if let Some(e) = err {
        return Err(e);
    }
    if !ok {
        w.count("c04_node_level_not_connected");
        return Ok(());
    }
    states.push(mesh::abstract_state(w));
    w.net.enabled = true;
    w.net.send_fault_pm = *w.ch.pick("send_error_pm", &[100u32, 300, 600]);
    let ops = 20 + w.ch.choose("ops", 120);
    for k in 0..ops {
        let a = w.ch.choose("from", n as u32) as usize;
        let b = (a + 1 + w.ch.choose("to", n as u32 - 1) as usize) % n;
        let f = mesh::ipv4_packet(mesh::tun_ip(a), mesh::tun_ip(b), &(k as u32).to_be_bytes());
        let at = w.now_ms + 1 + w.ch.choose("gap_ms", 3_000) as u64;
        w.schedule_frame(at, a, f);
        drive(w, &mut log, at + 30)?;
    }
    w.count("c04_node_level_runs");
    states.push(mesh::abstract_state(w));
    Ok(())
}

fn node_level(seed: u64, ch: Chooser, ctx: &RunCtx) -> RunOut {
    let mut w = mesh::new_world(seed, ch, ctx);
    let mut states = vec![];
    let res = node_scenario(&mut w, ctx, &mut states);
    let nontrivial = w.counters.get("c04_node_level_seals_logged").copied().unwrap_or(0) > 10;
    finish(w, res, nontrivial, states)
}

pub struct C04;

impl Scenario for C04 {
    fn id(&self) -> &'static str {
        "C04"
    }

    fn run(&self, seed: u64, ch: Chooser, ctx: &RunCtx) -> RunOut {
        // one run in three walks the two-party handshake schedules of C05 (sweep first) under the seal-log oracles
        if ctx.index % 3 == 2 {
            return l1::c05_for(seed, ch, ctx, ctx.index / 3, true);
        }
        // after the sweeps every twentieth run is a node-level run under send errors
        if ctx.index >= 3 * 4096 && ctx.index % 20 == 1 {
            return node_level(seed, ch, ctx);
        }
        l1::c04(seed, ch, ctx)
    }

    fn budget(&self, tier: Tier) -> (u64, u64) {
        match tier {
            Tier::Quick => (3 * 4096 + 3000, 120),
            Tier::Thorough => (3 * 262_144 + 60_000, 1500),
        }
    }

    fn rule(&self) -> &'static str {
        "two thirds of the runs: whole connection lifetimes of a real PeerCrypto pair: handshake by one side or both at once with reordered/duplicated handshake datagrams, then 300-1500 ticks per end (thorough: up to 4000; a rotation cycle is 120 ticks) with rotation messages lost, duplicated, reordered and delayed, a probe sealed in both directions after every step; nonce starts shaped to sit 0-299 seals below a carry boundary of 1-6 low bytes in 60 % of the runs; in half of the runs the counter is afterwards placed 1-40 seals below the 56 bit limit. Oracle over the seal log (every encrypt call of both ends): no (key fingerprint, nonce) twice, strictly increasing per (end, key), the two ends of one key use different top bytes, every key's first nonce is exactly what the generator handed out, past the 56 bit limit the peer opens nothing and below it everything. One third of the runs: the two-party handshake schedules of C05 (sweep of all schedules of length 4 / 6 over {A initiates, B initiates, deliver oldest/newest, duplicate, drop, tick A, tick B}, then random schedules with forced re-dials) under the same seal-log oracles plus: the two ends of one key install it with opposite nonce halves. After the sweeps every twentieth run is a node-level run: 2-3 real nodes exchange 20-140 packets while their sockets refuse datagrams now and then (EAGAIN, ENETUNREACH, EPERM, EINTR, short write at 10-60 % of the node events); every seal of every node is logged and must be unique and increasing per key - a refused datagram was sealed all the same. Non-trivial: more than 10 seals were logged or a handshake completed."
    }

    fn expected_probes(&self) -> Vec<&'static str> {
        vec!["c04_both_ends_sealed_under_one_key", "c04_low_byte_carry", "c04_two_byte_carry", "c04_seals_past_56_bit_limit", "c04_nonce_start_near_carry", "l1_dual_open", "c07_sealing_key_changes"]
    }
}
