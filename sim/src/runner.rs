//! Batch execution, minimisation, replay files and the result/evidence JSON.
use std::{
    collections::{BTreeMap, BTreeSet},
    sync::{
        atomic::{AtomicBool, AtomicU64, Ordering},
        Arc, Mutex,
    },
    time::Instant,
};

use super::{chooser::Chooser, json::J, rng};

#[derive(Clone, Copy, PartialEq, Debug)]
pub enum Tier {
    Quick,
    Thorough,
}

#[derive(Clone, Debug)]
pub struct Violation {
    pub oracle: &'static str,
    pub signature: String,
    pub message: String,
}

impl Violation {
    pub fn new(oracle: &'static str, signature: impl Into<String>, message: impl Into<String>) -> Self {
        Violation { oracle, signature: signature.into(), message: message.into() }
    }
}

pub struct RunCtx {
    pub tier: Tier,
    pub index: u64,
    pub render: bool,
    pub verbose: bool,
    /// upper bound on simulator steps for this run (minimiser: twice the steps of the original run)
    pub step_cap: Option<u64>,
}

#[derive(Default)]
pub struct RunOut {
    pub violation: Option<Violation>,
    pub log_hash: u64,
    pub sig: u64,
    pub nontrivial: bool,
    pub sim_ms: u64,
    pub counters: BTreeMap<&'static str, u64>,
    pub render: Option<Vec<String>>,
    pub trace: Vec<(&'static str, u32)>,
    pub states: Vec<u64>,
    pub overrun: usize,
    pub steps: u64,
}

pub trait Scenario: Sync {
    fn id(&self) -> &'static str;
    fn run(&self, seed: u64, ch: Chooser, ctx: &RunCtx) -> RunOut;
    /// (runs, wall-clock cap in seconds)
    fn budget(&self, tier: Tier) -> (u64, u64);
    fn rule(&self) -> &'static str;
    fn level(&self) -> &'static str {
        "exploration"
    }
    fn assumptions(&self) -> Vec<&'static str> {
        vec![]
    }
    /// probe counters that a thorough run is expected to hit (coverage gaps are reported)
    fn expected_probes(&self) -> Vec<&'static str> {
        vec![]
    }
    /// component table: (component, real|stub)
    fn exhaustive(&self, _tier: Tier, _runs: u64) -> bool {
        false
    }
}

pub fn run_seed(batch_seed: u64, pid: &str, index: u64) -> u64 {
    rng::mix(rng::mix(batch_seed, rng::hash_str(pid)), index)
}

pub struct Failure {
    pub steps: u64,
    pub index: u64,
    pub seed: u64,
    pub trace: Vec<(&'static str, u32)>,
    pub violation: Violation,
    pub log_hash: u64,
}

pub struct BatchResult {
    pub runs: u64,
    pub distinct_nontrivial: usize,
    pub distinct_states: usize,
    pub sim_ms: u64,
    pub counters: BTreeMap<&'static str, u64>,
    pub failures: Vec<Failure>,
    pub failing_runs: u64,
    pub wall_s: f64,
    pub capped: bool,
    pub hashes: Vec<(u64, u64)>,
}

/// CPU time consumed so far by the calling thread, in ms
pub fn thread_cpu_ms() -> u64 {
    let mut ts = libc::timespec { tv_sec: 0, tv_nsec: 0 };
    unsafe { libc::clock_gettime(libc::CLOCK_THREAD_CPUTIME_ID, &mut ts) };
    ts.tv_sec as u64 * 1000 + ts.tv_nsec as u64 / 1_000_000
}

/// the CPU-time clock of the calling thread, readable from other threads
pub fn thread_cpu_clock() -> i64 {
    let mut cid: libc::clockid_t = 0;
    let rc = unsafe { libc::pthread_getcpuclockid(libc::pthread_self(), &mut cid) };
    if rc == 0 {
        cid as i64
    } else {
        -1
    }
}

pub fn cpu_ms_of(clock: i64) -> Option<u64> {
    if clock == -1 {
        return None;
    }
    let mut ts = libc::timespec { tv_sec: 0, tv_nsec: 0 };
    let rc = unsafe { libc::clock_gettime(clock as libc::clockid_t, &mut ts) };
    if rc == 0 {
        Some(ts.tv_sec as u64 * 1000 + ts.tv_nsec as u64 / 1_000_000)
    } else {
        None
    }
}

pub struct Slot {
    /// run index + 1; 0 = idle
    pub run: AtomicU64,
    pub start_wall_ms: AtomicU64,
    /// CPU time of the worker thread when the run started
    pub start_cpu_ms: AtomicU64,
    pub cpu_clock: std::sync::atomic::AtomicI64,
}

/// what every worker is executing right now
pub struct Progress {
    pub slots: Vec<Slot>,
    pub done: AtomicU64,
    pub longest_run_cpu_ms: AtomicU64,
    pub start: Instant,
}

/// A run counts as not terminating when its thread has burnt this much CPU time inside it (machine load does not
/// count), or when it has not returned for the wall-clock limit (a blocked thread burns nothing).
pub const HANG_CPU_S: u64 = 300;
pub const HANG_WALL_S: u64 = 3600;

impl Progress {
    pub fn new(workers: usize) -> Arc<Progress> {
        Arc::new(Progress {
            slots: (0..workers.max(1)).map(|_| Slot { run: AtomicU64::new(0), start_wall_ms: AtomicU64::new(0), start_cpu_ms: AtomicU64::new(0), cpu_clock: std::sync::atomic::AtomicI64::new(-1) }).collect(),
            done: AtomicU64::new(0),
            longest_run_cpu_ms: AtomicU64::new(0),
            start: Instant::now(),
        })
    }

    /// a run that exceeded a limit: (index, CPU seconds, wall seconds)
    pub fn stuck(&self, cpu_limit_s: u64, wall_limit_s: u64) -> Option<(u64, u64, u64)> {
        let now = self.start.elapsed().as_millis() as u64;
        for sl in &self.slots {
            let i = sl.run.load(Ordering::Acquire);
            if i > 0 {
                let wall = now.saturating_sub(sl.start_wall_ms.load(Ordering::Relaxed)) / 1000;
                let cpu = cpu_ms_of(sl.cpu_clock.load(Ordering::Relaxed)).map(|c| c.saturating_sub(sl.start_cpu_ms.load(Ordering::Relaxed)) / 1000).unwrap_or(0);
                // the slot may have moved on to another run while we looked
                if sl.run.load(Ordering::Acquire) == i && (cpu >= cpu_limit_s || wall >= wall_limit_s) {
                    return Some((i - 1, cpu, wall));
                }
            }
        }
        None
    }
}

pub fn run_batch(sc: &'static dyn Scenario, tier: Tier, batch_seed: u64, runs: u64, cap_s: u64, workers: usize, keep_hashes: bool) -> BatchResult {
    run_batch_with(sc, tier, batch_seed, runs, cap_s, workers, keep_hashes, Progress::new(workers))
}

#[allow(clippy::too_many_arguments)]
pub fn run_batch_with(sc: &'static dyn Scenario, tier: Tier, batch_seed: u64, runs: u64, cap_s: u64, workers: usize, keep_hashes: bool, progress: Arc<Progress>) -> BatchResult {
    let next = Arc::new(AtomicU64::new(0));
    let stop = Arc::new(AtomicBool::new(false));
    struct Shared {
        sigs: BTreeSet<u64>,
        states: BTreeSet<u64>,
        counters: BTreeMap<&'static str, u64>,
        failures: BTreeMap<(String, String), Failure>,
        failing_runs: u64,
        sim_ms: u64,
        done: u64,
        hashes: Vec<(u64, u64)>,
    }
    let shared = Arc::new(Mutex::new(Shared {
        sigs: BTreeSet::new(),
        states: BTreeSet::new(),
        counters: BTreeMap::new(),
        failures: BTreeMap::new(),
        failing_runs: 0,
        sim_ms: 0,
        done: 0,
        hashes: vec![],
    }));
    let start = Instant::now();
    let mut handles = vec![];
    for slot in 0..workers.max(1) {
        let next = next.clone();
        let stop = stop.clone();
        let shared = shared.clone();
        let progress = progress.clone();
        let h = std::thread::Builder::new()
            .stack_size(64 << 20)
            .spawn(move || {
                let mut local_sigs = vec![];
                let mut local_states: BTreeSet<u64> = BTreeSet::new();
                let mut local_counters: BTreeMap<&'static str, u64> = BTreeMap::new();
                let mut local_sim = 0u64;
                let mut local_done = 0u64;
                let mut local_hashes = vec![];
                let mut flush = |sigs: &mut Vec<u64>, states: &mut BTreeSet<u64>, counters: &mut BTreeMap<&'static str, u64>, sim: &mut u64, done: &mut u64, hashes: &mut Vec<(u64, u64)>| {
                    let mut s = shared.lock().unwrap();
                    s.sigs.extend(sigs.drain(..));
                    s.states.extend(std::mem::take(states));
                    for (k, v) in std::mem::take(counters) {
                        *s.counters.entry(k).or_insert(0) += v;
                    }
                    s.sim_ms += *sim;
                    s.done += *done;
                    s.hashes.extend(hashes.drain(..));
                    *sim = 0;
                    *done = 0;
                };
                loop {
                    if stop.load(Ordering::Relaxed) {
                        break;
                    }
                    let i = next.fetch_add(1, Ordering::Relaxed);
                    if i >= runs {
                        break;
                    }
                    let seed = run_seed(batch_seed, sc.id(), i);
                    let ctx = RunCtx { tier, index: i, render: false, verbose: false, step_cap: None };
                    let sl = &progress.slots[slot];
                    let cpu0 = thread_cpu_ms();
                    sl.cpu_clock.store(thread_cpu_clock(), Ordering::Relaxed);
                    sl.start_wall_ms.store(progress.start.elapsed().as_millis() as u64, Ordering::Relaxed);
                    sl.start_cpu_ms.store(cpu0, Ordering::Relaxed);
                    sl.run.store(i + 1, Ordering::Release);
                    let out = sc.run(seed, Chooser::from_seed(seed), &ctx);
                    sl.run.store(0, Ordering::Release);
                    progress.longest_run_cpu_ms.fetch_max(thread_cpu_ms().saturating_sub(cpu0), Ordering::Relaxed);
                    progress.done.fetch_add(1, Ordering::Relaxed);
                    local_done += 1;
                    local_sim += out.sim_ms;
                    if out.nontrivial {
                        local_sigs.push(out.sig);
                    }
                    local_states.extend(out.states.iter().copied());
                    for (k, v) in &out.counters {
                        *local_counters.entry(k).or_insert(0) += v;
                    }
                    if keep_hashes {
                        local_hashes.push((i, out.log_hash));
                    }
                    if let Some(v) = out.violation {
                        let mut s = shared.lock().unwrap();
                        s.failing_runs += 1;
                        let key = (v.oracle.to_string(), v.signature.clone());
                        let replace = match s.failures.get(&key) {
                            Some(f) => f.index > i,
                            None => s.failures.len() < 12,
                        };
                        if replace {
                            s.failures.insert(key, Failure { steps: out.steps, index: i, seed, trace: out.trace, violation: v, log_hash: out.log_hash });
                        }
                    }
                    if local_done >= 64 {
                        flush(&mut local_sigs, &mut local_states, &mut local_counters, &mut local_sim, &mut local_done, &mut local_hashes);
                        if cap_s > 0 && start.elapsed().as_secs() >= cap_s {
                            stop.store(true, Ordering::Relaxed);
                        }
                    }
                }
                flush(&mut local_sigs, &mut local_states, &mut local_counters, &mut local_sim, &mut local_done, &mut local_hashes);
            })
            .unwrap();
        handles.push(h);
    }
    for h in handles {
        h.join().expect("worker thread died");
    }
    let capped = stop.load(Ordering::Relaxed);
    let s = Arc::try_unwrap(shared).ok().unwrap().into_inner().unwrap();
    let mut failures: Vec<Failure> = s.failures.into_values().collect();
    failures.sort_by_key(|f| f.index);
    let mut hashes = s.hashes;
    hashes.sort();
    BatchResult {
        runs: s.done,
        distinct_nontrivial: s.sigs.len(),
        distinct_states: s.states.len(),
        sim_ms: s.sim_ms,
        counters: s.counters,
        failures,
        failing_runs: s.failing_runs,
        wall_s: start.elapsed().as_secs_f64(),
        capped,
        hashes,
    }
}

fn fails_same(sc: &dyn Scenario, tier: Tier, seed: u64, index: u64, values: &[u32], oracle: &str, signature: &str, step_cap: Option<u64>) -> bool {
    let ctx = RunCtx { tier, index, render: false, verbose: false, step_cap };
    let out = sc.run(seed, Chooser::from_trace(seed, values.to_vec()), &ctx);
    match out.violation {
        Some(v) => v.oracle == oracle && v.signature == signature,
        None => false,
    }
}

/// Shrinks the choice trace while the same (oracle, signature) keeps failing
pub fn minimise(sc: &dyn Scenario, tier: Tier, f: &Failure, max_execs: usize, max_s: u64) -> (Vec<u32>, usize) {
    let start = Instant::now();
    let mut execs = 0usize;
    let mut best: Vec<u32> = f.trace.iter().map(|t| t.1).collect();
    let oracle = f.violation.oracle;
    let sig = f.violation.signature.clone();
    let mut try_cand = |cand: &[u32], execs: &mut usize| -> bool {
        if *execs >= max_execs || start.elapsed().as_secs() >= max_s {
            return false;
        }
        *execs += 1;
        fails_same(sc, tier, f.seed, f.index, cand, oracle, &sig, Some(f.steps * 2 + 1000))
    };
    // sanity: the recorded trace must reproduce
    if !try_cand(&best, &mut execs) {
        return (best, execs);
    }
    // 1. shortest failing prefix (binary search; beyond the prefix every choice is 0)
    let (mut lo, mut hi) = (0usize, best.len());
    while lo < hi {
        let mid = (lo + hi) / 2;
        if try_cand(&best[..mid], &mut execs) {
            hi = mid;
        } else {
            lo = mid + 1;
        }
    }
    if hi < best.len() && try_cand(&best[..hi], &mut execs) {
        best.truncate(hi);
    }
    // 2. chunk zeroing and deletion
    let mut size = (best.len() / 2).max(1);
    loop {
        let mut i = 0;
        while i < best.len() {
            let end = (i + size).min(best.len());
            if best[i..end].iter().any(|v| *v != 0) {
                let mut cand = best.clone();
                for v in &mut cand[i..end] {
                    *v = 0;
                }
                if try_cand(&cand, &mut execs) {
                    best = cand;
                }
            }
            if size >= 2 || best.len() < 200 {
                let mut cand = best.clone();
                cand.drain(i..end);
                if try_cand(&cand, &mut execs) {
                    best = cand;
                    continue;
                }
            }
            i += size;
        }
        if size == 1 {
            break;
        }
        size /= 2;
        if execs >= max_execs {
            break;
        }
    }
    // 3. lower single values
    for i in 0..best.len() {
        if best[i] > 1 {
            for cand_v in [1, best[i] / 2] {
                if cand_v < best[i] {
                    let mut cand = best.clone();
                    cand[i] = cand_v;
                    if try_cand(&cand, &mut execs) {
                        best = cand;
                        break;
                    }
                }
            }
        }
    }
    // drop trailing zeros (an exhausted trace answers 0 anyway)
    while best.last() == Some(&0) {
        best.pop();
    }
    (best, execs)
}

pub fn trace_json(trace: &[(&'static str, u32)]) -> J {
    J::Arr(trace.iter().map(|(l, v)| J::Arr(vec![J::s(l), J::i(*v as i64)])).collect())
}

pub fn write_replay(sc: &dyn Scenario, tier: Tier, f: &Failure, dir: &str, minimise_budget: (usize, u64)) -> (String, J) {
    let (min_values, execs) = minimise(sc, tier, f, minimise_budget.0, minimise_budget.1);
    // final rendering run with the minimised trace
    let ctx = RunCtx { tier, index: f.index, render: true, verbose: false, step_cap: Some(f.steps * 2 + 1000) };
    let out = sc.run(f.seed, Chooser::from_trace(f.seed, min_values.clone()), &ctx);
    let (viol, min_ok) = match &out.violation {
        Some(v) if v.oracle == f.violation.oracle && v.signature == f.violation.signature => (v.clone(), true),
        _ => (f.violation.clone(), false),
    };
    let path = format!("{}/{}-{}-{:016x}.json", dir, sc.id(), viol.signature.chars().filter(|c| c.is_ascii_alphanumeric() || *c == '-').take(48).collect::<String>(), f.seed);
    let tier_s = if tier == Tier::Quick { "quick" } else { "thorough" };
    let doc = J::obj()
        .with("property", J::s(sc.id()))
        .with("tier", J::s(tier_s))
        .with("seed", J::s(&format!("{}", f.seed)))
        .with("index", J::i(f.index as i64))
        .with("oracle", J::s(viol.oracle))
        .with("signature", J::s(&viol.signature))
        .with("message", J::s(&viol.message))
        .with("minimised", J::Bool(min_ok))
        .with("minimiser_executions", J::i(execs as i64))
        .with("original_choices", J::i(f.trace.len() as i64))
        .with("original_log_hash", J::s(&format!("{:016x}", f.log_hash)))
        .with("log_hash", J::s(&format!("{:016x}", if min_ok { out.log_hash } else { f.log_hash })))
        .with("choices", if min_ok { trace_json(&out.trace[..min_values.len().min(out.trace.len())]) } else { trace_json(&f.trace) })
        .with("schedule", J::strs(&out.render.clone().unwrap_or_default()));
    let _ = std::fs::create_dir_all(dir);
    let _ = std::fs::write(&path, doc.to_string() + "\n");
    (path, doc)
}

pub struct ReplayOutcome {
    pub violation: Option<Violation>,
    pub diverged: bool,
    pub render: Vec<String>,
}

pub fn replay_file(sc: &dyn Scenario, path: &str) -> Result<ReplayOutcome, String> {
    let text = std::fs::read_to_string(path).map_err(|e| format!("cannot read {}: {}", path, e))?;
    let doc = J::parse(&text)?;
    let seed: u64 = doc.get("seed").and_then(|s| s.as_str()).and_then(|s| s.parse().ok()).ok_or("no seed")?;
    let index = doc.get("index").and_then(|v| v.as_i64()).unwrap_or(0) as u64;
    let tier = if doc.get("tier").and_then(|t| t.as_str()) == Some("thorough") { Tier::Thorough } else { Tier::Quick };
    let values: Vec<u32> = doc
        .get("choices")
        .and_then(|c| c.as_arr())
        .ok_or("no choices")?
        .iter()
        .map(|e| e.as_arr().and_then(|a| a.get(1)).and_then(|v| v.as_i64()).unwrap_or(0) as u32)
        .collect();
    let ctx = RunCtx { tier, index, render: true, verbose: true, step_cap: None };
    let from_seed = matches!(doc.get("from_seed"), Some(J::Bool(true)));
    let ch = if from_seed { Chooser::from_seed(seed) } else { Chooser::from_trace(seed, values) };
    let out = sc.run(seed, ch, &ctx);
    let want_hash = doc.get("log_hash").and_then(|h| h.as_str()).unwrap_or("");
    let got_hash = format!("{:016x}", out.log_hash);
    let want_sig = doc.get("signature").and_then(|h| h.as_str()).unwrap_or("");
    let want_oracle = doc.get("oracle").and_then(|h| h.as_str()).unwrap_or("");
    let same_violation = match &out.violation {
        Some(v) => v.signature == want_sig && v.oracle == want_oracle,
        None => false,
    };
    // divergence: the recorded run failed with this trace on the tree it was recorded on. On a changed
    // tree the outcome may legitimately differ (that is what replay after a repair is for), so only an
    // identical violation with a different event log counts as divergence.
    let diverged = same_violation && !want_hash.is_empty() && want_hash != got_hash;
    Ok(ReplayOutcome { violation: out.violation, diverged, render: out.render.unwrap_or_default() })
}

pub fn counters_json(c: &BTreeMap<&'static str, u64>) -> J {
    let mut o = J::obj();
    for (k, v) in c {
        o.set(k, J::i(*v as i64));
    }
    o
}
