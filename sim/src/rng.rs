//! Own PRNG (xoshiro256**) so that value stability is in our hands.

#[derive(Clone)]
pub struct Rng {
    s: [u64; 4],
}

pub fn splitmix(x: &mut u64) -> u64 {
    *x = x.wrapping_add(0x9E3779B97F4A7C15);
    let mut z = *x;
    z = (z ^ (z >> 30)).wrapping_mul(0xBF58476D1CE4E5B9);
    z = (z ^ (z >> 27)).wrapping_mul(0x94D049BB133111EB);
    z ^ (z >> 31)
}

pub fn mix(a: u64, b: u64) -> u64 {
    let mut x = a ^ b.wrapping_mul(0xD6E8FEB86659FD93).rotate_left(29);
    let r = splitmix(&mut x);
    splitmix(&mut (r ^ b))
}

pub fn hash_bytes(data: &[u8]) -> u64 {
    let mut h: u64 = 0xcbf29ce484222325;
    for b in data {
        h ^= *b as u64;
        h = h.wrapping_mul(0x100000001b3);
    }
    h
}

pub fn hash_str(s: &str) -> u64 {
    hash_bytes(s.as_bytes())
}

impl Rng {
    pub fn new(seed: u64) -> Self {
        let mut x = seed;
        let s = [splitmix(&mut x), splitmix(&mut x), splitmix(&mut x), splitmix(&mut x)];
        Rng { s }
    }

    pub fn next(&mut self) -> u64 {
        let result = self.s[1].wrapping_mul(5).rotate_left(7).wrapping_mul(9);
        let t = self.s[1] << 17;
        self.s[2] ^= self.s[0];
        self.s[3] ^= self.s[1];
        self.s[1] ^= self.s[2];
        self.s[0] ^= self.s[3];
        self.s[2] ^= t;
        self.s[3] = self.s[3].rotate_left(45);
        result
    }

    /// Uniform in 0..n (n >= 1)
    pub fn below(&mut self, n: u64) -> u64 {
        if n <= 1 {
            return 0;
        }
        // multiply-shift, bias negligible for our n
        ((self.next() as u128 * n as u128) >> 64) as u64
    }

    pub fn fill(&mut self, buf: &mut [u8]) {
        let mut i = 0;
        while i < buf.len() {
            let v = self.next().to_le_bytes();
            let n = (buf.len() - i).min(8);
            buf[i..i + n].copy_from_slice(&v[..n]);
            i += n;
        }
    }

    pub fn bytes(&mut self, len: usize) -> Vec<u8> {
        let mut v = vec![0; len];
        self.fill(&mut v);
        v
    }
}
