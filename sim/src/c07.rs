//! C07 - see l1.rs (pair level scenarios)
use super::{
    chooser::Chooser,
    l1,
    runner::{RunCtx, RunOut, Scenario, Tier},
};

pub struct C07;

impl Scenario for C07 {
    fn id(&self) -> &'static str {
        "C07"
    }

    fn run(&self, seed: u64, ch: Chooser, ctx: &RunCtx) -> RunOut {
        l1::c07(seed, ch, ctx)
    }

    fn budget(&self, tier: Tier) -> (u64, u64) {
        match tier {
            Tier::Quick => (l1::c07_sweep_size(tier) + 6000, 120),
            Tier::Thorough => (l1::c07_sweep_size(tier) + 150_000, 1500),
        }
    }

    fn rule(&self) -> &'static str {
        "the first 6^6 runs (thorough: 6^8) are a seed-indexed sweep over all schedules of that length over {rotation cycle (120 ticks) at A, cycle at B, deliver the oldest / newest in-flight rotation message, deliver a duplicate of the oldest, drop the oldest} with a probe in both directions after every operation; the remaining runs: an established real PeerCrypto pair (real rotation state and key slots); 300-1500 ticks per end (thorough: up to 4000; rotation interval 120 ticks) at independent rates (drift, swapped order), rotation messages lost (10-60 %), duplicated, reordered and delayed by up to 600 ticks during a fault phase covering 0-75 % of the run; after every step each end seals a probe and the other must open it to the same bytes; in the fault-free suffix (after a recovery allowance of 4 intervals) the sealing key of each direction must change at least once in every window of 2 intervals + 1 tick. Non-trivial: probes were checked. Distinct = distinct schedule hashes."
    }

    fn expected_probes(&self) -> Vec<&'static str> {
        vec!["c07_sweep_runs", "c07_sealing_key_changes", "c07_long_lifetimes", "c07_freshness_windows_checked", "fault_drop", "fault_dup", "fault_reorder", "fault_delay"]
    }
}
