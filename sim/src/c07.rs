//! C07 - pair level scenarios in l1.rs; node level (a second handshake replaces the connection) here
use super::{
    chooser::Chooser,
    l1,
    mesh::{self, finish, panic_violation},
    runner::{RunCtx, RunOut, Scenario, Tier, Violation},
    world::{Step, World},
};
use crate::verif::Event;

struct Ns {
    /// when each node last added the other as a peer (ms)
    added: [Option<u64>; 2],
    key_changes: u64,
}

fn after(w: &mut World, s: &mut Ns, st: &Step) -> Result<(), Violation> {
    if let Some(v) = panic_violation(w, st, "C07") {
        return Err(v);
    }
    if let Some(i) = st.node {
        for e in &st.probes {
            match e {
                Event::PeerAdded { .. } if i < 2 => s.added[i] = Some(w.now_ms),
                Event::KeyRotated { use_for_sending: true, .. } => s.key_changes += 1,
                _ => {}
            }
        }
    }
    Ok(())
}

fn drive(w: &mut World, s: &mut Ns, until: u64) -> Result<(), Violation> {
    while let Some(st) = w.step(until) {
        after(w, s, &st)?;
    }
    Ok(())
}

/// Node level: the connection of two real nodes is replaced by a second handshake (the dialling end crashes and comes
/// back on the same address while the other end still holds the old connection); after that handshake, too, each end
/// seals with keys the other holds: every probe crosses, in both directions, over several rotation intervals.
fn node_scenario(w: &mut World, _ctx: &RunCtx, states: &mut Vec<u64>) -> Result<(), Violation> {
    let k = w.add_key(None);
    let fam = w.ch.choose("addr_family", 2) as u8;
    let cipher = w.ch.pick("cipher", &["aes128", "aes256", "chacha20"]).to_string();
    for i in 0..2 {
        let mut c = mesh::tun_node(i);
        c.key = k;
        c.algorithms = vec![cipher.clone()];
        c.tick_phase_ms = w.ch.choose("tick_phase", 1000) as u64;
        if i == 1 {
            c.peers.push(mesh::node_text(0, fam));
        }
        w.add_node(c, fam);
    }
    let mut s = Ns { added: [None, None], key_changes: 0 };
    for i in 0..2 {
        let st = w.start_node(i);
        after(w, &mut s, &st)?;
    }
    let mut err = None;
    let ok = mesh::run_until_connected(w, &[(0, 1), (1, 0)], 8_000, |w, st| after(w, &mut s, st)).unwrap_or_else(|e| {
        err = Some(e);
        false
    });
    if let Some(e) = err {
        return Err(e);
    }
    if !ok {
        return Ok(());
    }
    // past the time the first handshake lingers at its initiator, with some rotations behind
    let until = w.now_ms + 130_000 + w.ch.choose("first_life_ms", 600_000) as u64;
    drive(w, &mut s, until)?;
    w.crash_node(1);
    let pause = w.ch.choose("down_ms", 3_000) as u64;
    let until = w.now_ms + pause;
    drive(w, &mut s, until)?;
    let restarted_at = w.now_ms;
    s.added = [None, None];
    let st = w.start_node(1);
    after(w, &mut s, &st)?;
    let deadline = w.now_ms + 10_000;
    let mut err = None;
    let ok = mesh::run_until_connected(w, &[(0, 1), (1, 0)], deadline, |w, st| after(w, &mut s, st)).unwrap_or_else(|e| {
        err = Some(e);
        false
    });
    if let Some(e) = err {
        return Err(e);
    }
    if !ok || s.added[0].is_none() || s.added[1].is_none() {
        w.count("c07_node_level_not_reconnected");
        return Ok(());
    }
    let until = w.now_ms + 2_000;
    drive(w, &mut s, until)?;
    states.push(mesh::abstract_state(w));
    w.count("c07_node_level_second_handshakes");
    let span_ms = 20_000 + w.ch.choose("probe_span_ms", 700_000) as u64;
    let end = w.now_ms + span_ms;
    let mut counter = 0u32;
    while w.now_ms < end {
        for (a, b) in [(0usize, 1usize), (1, 0)] {
            if !(w.is_connected(a, b) && w.is_connected(b, a)) {
                return Ok(());
            }
            counter += 1;
            let m = mesh::marker(w, counter);
            let f = mesh::ipv4_packet(mesh::tun_ip(a), mesh::tun_ip(b), &m);
            let first = w.dev_writes.len();
            let at = w.now_ms + 1;
            w.schedule_frame(at, a, f.clone());
            drive(w, &mut s, at + 200)?;
            w.count("c07_node_level_probes_checked");
            if !w.dev_writes[first..].iter().any(|d| d.node == b && d.data == f) {
                return Err(Violation::new("probe", "fresh-payload-not-decryptable", format!("after the second handshake (n1 came back at t={:.1}s; both ends added each other again) a probe from n{} to n{} sent at t={:.1}s on a loss-free network was not delivered: the ends do not seal with keys the other holds", restarted_at as f64 / 1000.0, a, b, at as f64 / 1000.0)));
            }
        }
        let gap = 1_000 + w.ch.choose("probe_gap_ms", 9_000) as u64;
        let until = w.now_ms + gap;
        drive(w, &mut s, until)?;
    }
    states.push(mesh::abstract_state(w));
    Ok(())
}

fn node_level(seed: u64, ch: Chooser, ctx: &RunCtx) -> RunOut {
    let mut w = mesh::new_world(seed, ch, ctx);
    let mut states = vec![];
    let res = node_scenario(&mut w, ctx, &mut states);
    let nontrivial = w.counters.get("c07_node_level_probes_checked").copied().unwrap_or(0) > 0;
    finish(w, res, nontrivial, states)
}

pub struct C07;

impl Scenario for C07 {
    fn id(&self) -> &'static str {
        "C07"
    }

    fn run(&self, seed: u64, ch: Chooser, ctx: &RunCtx) -> RunOut {
        // after the sweep every fiftieth run is a node-level run
        if ctx.index >= l1::c07_sweep_size(ctx.tier) && ctx.index % 50 == 7 {
            return node_level(seed, ch, ctx);
        }
        l1::c07(seed, ch, ctx)
    }

    fn budget(&self, tier: Tier) -> (u64, u64) {
        match tier {
            Tier::Quick => (l1::c07_sweep_size(tier) + 6000, 120),
            Tier::Thorough => (l1::c07_sweep_size(tier) + 150_000, 1500),
        }
    }

    fn rule(&self) -> &'static str {
        "the first 6^6 runs (thorough: 6^8) are a seed-indexed sweep over all schedules of that length over {rotation cycle (120 ticks) at A, cycle at B, deliver the oldest / newest in-flight rotation message, deliver a duplicate of the oldest, drop the oldest} with a probe in both directions after every operation; the remaining runs: an established real PeerCrypto pair (real rotation state and key slots); 300-1500 ticks per end (thorough: up to 4000; rotation interval 120 ticks) at independent rates (drift, swapped order), rotation messages lost (10-60 %), duplicated, reordered and delayed by up to 600 ticks during a fault phase covering 0-75 % of the run; after every step each end seals a probe and the other must open it to the same bytes; in the fault-free suffix (after a recovery allowance of 4 intervals) the sealing key of each direction must change at least once in every window of 2 intervals + 1 tick. After the sweep every fiftieth run is a node-level run: the connection of two real nodes is replaced by a second handshake (the dialling end crashes and comes back on the same address 130-730 s after the first handshake, while the other end still holds the old connection); once both ends have added each other again, probes in both directions every 1-10 s for up to 12 minutes must all be delivered. Non-trivial: probes were checked. Distinct = distinct schedule hashes."
    }

    fn expected_probes(&self) -> Vec<&'static str> {
        vec!["c07_sweep_runs", "c07_sealing_key_changes", "c07_long_lifetimes", "c07_freshness_windows_checked", "fault_drop", "fault_dup", "fault_reorder", "fault_delay"]
    }
}
